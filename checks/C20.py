"""C20 — room synchronisation locks: exclusive, bounded, never lost."""
import os, random
from . import lib
from .engine import Cfg


def kv(line):
    t = line.split()
    return t[0], dict(x.split("=", 1) for x in t[1:] if "=" in x)


class C20(Cfg):
    prop = "C20"
    prop_module = "DiscretModel.Props.C20"
    lean_targets = ["dmodel_lock", "dmodel_lockconn"]
    harness_pkg = ["dv-lock", "dv-lockconn"]
    model_exe = "dmodel_lock"

    def engine_of_corpus(self, name):
        return ("dv-lockconn", "dmodel_lockconn") if "/conn-" in name else ("dv-lock", "dmodel_lock")

    def engine_of_ops(self, ops):
        conn = any(o.split(" ")[0] in ("conn", "cready", "cevent", "finish", "close") for o in ops)
        return ("dv-lockconn", "dmodel_lockconn") if conn else ("dv-lock", "dmodel_lock")
    design_ref = "DESIGN.md §6 C20, App. A.9"
    technique = "Lean 4 invariant/trace proofs over a literal model of the lock actor + exhaustive correspondence run against the real actor"
    level_text = ("Theorems (Lean 4, no bound on peers, rooms, limit, connections or sequence length). (1) About a literal model of the RoomLockService actor: "
                  "locked rooms distinct, locked+available=max (no underflow), queue/map agreement, between two grants of a room there is an unlock of it, "
                  "no missed wake-up (spare capacity => every pending room is locked), same-step progress on unlock, grants only to live receivers, pending-room accounting, head-of-line service. "
                  "(2) About the composed system (service + any number of connection loops with inbox, per-room tasks in three phases, close at any moment; every interleaving): for the code as fixed in /repo, "
                  "no room is ever synchronised by two connections or twice by one, every locked room has exactly one party responsible for releasing it (no lock is lost, also across close), at most max rooms are locked; "
                  "for the code before the fix the double-unlock and grant-in-flight witnesses are decide-checked. "
                  "(3) Eventually granted: for the code as fixed, a waiting peer never loses its place in the queue and gains one every time a released room it wants goes to somebody else, so it is overtaken fewer times than the queue is long (C20_bounded_bypass) and is then served first (head of line); for the code before that fix C20_breaks_starvation proves, for every number of rounds, a schedule in which every granted room is released and a live waiting peer never gets its room (replayed on the real actor of that time). "
                  "Both models are tied to the code on every run: the real actor and real LocalPeerService connection loops are driven on the same op sequences as the compiled models (all sequences over 2-3 peers, 2-3 rooms, limits 1-2 up to a bounded length, plus random long runs and random connection histories), outputs diffed, with an independent spec-level oracle on the implementation's observations.")
    level_note = ("Trusted: Lean kernel (+propext, Classical.choice, Quot.sound), the hand-written models and their correspondence harnesses (single-threaded runtime driven to quiescence after every op), tokio channel semantics. "
                  "Modelled and exercised: room_locking_service.rs; the lock-related part of LocalPeerService::start / process_acquired_room / cleanup in peer_inbound_service.rs (under the eager schedule only; the theorems cover all schedules of the model). "
                  "Not covered: real multi-thread timing, the select! race between a grant and the end of the loop (modelled, not reproducible deterministically).")
    trusted_base = [
        "hand-written model lean/DiscretModel/Model/Lock.lean of room_locking_service.rs, tied by the correspondence run (dv-lock vs dmodel_lock)",
        "harness/lock (drives the real RoomLockService actor on a current-thread tokio runtime; quiescence by yielding)",
        "hand-written model lean/DiscretModel/Model/LockConn.lean of the connection side, tied by engine lockconn (real LocalPeerService::start loops, harness as remote peer)",
    ]
    assumptions = [
        "tokio mpsc channels are FIFO and lossless; UnboundedSender::send fails iff the receiver was dropped",
        "eventual grant is proved as bounded bypass + head-of-line service + progress; it assumes that granted rooms are released (the connection-level theorems give that for every closed connection)",
        "system-level theorems assume no party outside the modelled connections sends Unlock to the service",
    ]

    def gen_conn(self, seed, n, path):
        """random histories of engine lockconn: 1-3 REAL connections (LocalPeerService::start) and 0-2 outside
        parties on one lock service; biased towards closing a connection while it synchronises and towards
        requests for rooms that are being synchronised."""
        rnd = random.Random(seed * 7919 + 17)
        with open(path, "w") as f:
            for cid in range(n):
                mx = rnd.choice([1, 1, 2])
                nconn = rnd.choice([1, 2, 2, 3])
                rooms = list(range(1, rnd.choice([2, 3, 4]) + 1))
                f.write("case id=%d max=%d\n" % (cid, mx))
                for i in range(nconn): f.write("conn c=%d\n" % i)
                syncing = set()       # (conn, room) the generator believes may be in progress (only a bias)
                closed = set()
                for _ in range(rnd.randint(3, 14)):
                    k = rnd.choices(["cready", "cevent", "finish", "close", "req", "unlock", "drop"],
                                    [2, 5, 6, 2, 2, 1, 1])[0]
                    c = rnd.randrange(nconn)
                    if k == "cready":
                        rs = rnd.sample(rooms, rnd.randint(0, len(rooms)))
                        f.write("cready c=%d rooms=%s\n" % (c, ",".join(map(str, rs))))
                        syncing.update((c, r) for r in rs)
                    elif k == "cevent":
                        r = rnd.choice(rooms); f.write("cevent c=%d r=%d\n" % (c, r)); syncing.add((c, r))
                    elif k == "finish":
                        if syncing and rnd.random() < 0.8: c, r = rnd.choice(sorted(syncing))
                        else: r = rnd.choice(rooms)
                        f.write("finish c=%d r=%d\n" % (c, r))
                    elif k == "close":
                        f.write("close c=%d\n" % c); closed.add(c)
                    elif k == "req":
                        p = rnd.choice([1, 2]); rs = rnd.sample(rooms, rnd.randint(1, len(rooms)))
                        f.write("req p=%d ch=%d rooms=%s\n" % (p, p, ",".join(map(str, rs))))
                    elif k == "unlock":
                        f.write("unlock r=%d\n" % rnd.choice(rooms))
                    else:
                        f.write("drop ch=%d\n" % rnd.choice([1, 2]))

    def streams(self, tier, seed, work, dvs):
        dv = dvs["dv-lock"]
        res = []
        n = 400 if tier == "quick" else 6000
        path = os.path.join(work, "conn_random.ops")
        self.gen_conn(seed, n, path)
        res.append(("conn random seed=%d n=%d" % (seed, n), path, False, "dv-lockconn", "dmodel_lockconn"))
        plan = [(2, 2, 4, 1), (2, 2, 3, 2), (3, 2, 3, 1)] if tier == "quick" else \
               [(2, 2, 5, 1), (2, 2, 5, 2), (3, 3, 4, 1), (3, 3, 4, 2), (3, 2, 5, 1)]
        for (p, r, l, m) in plan:
            path = os.path.join(work, "enum_p%d_r%d_l%d_m%d.ops" % (p, r, l, m))
            lib.sh([dv, "enum", "--peers", str(p), "--rooms", str(r), "--len", str(l), "--max", str(m),
                    "--out", path], check=True)
            res.append(("enum p=%d r=%d len=%d max=%d" % (p, r, l, m), path, True))
        n = 3000 if tier == "quick" else 60000
        path = os.path.join(work, "random.ops")
        lib.sh([dv, "gen", "--seed", str(seed), "--n", str(n), "--len", "30", "--out", path], check=True)
        res.append(("random seed=%d n=%d" % (seed, n), path, False))
        return res

    def oracle(self, ops, outs):
        """Spec-level oracle, independent of the model's algorithm:
        exclusive (no grant of a held room), bounded (held <= max), grants only to live receivers,
        no missed wake-up (spare capacity => no known-pending free room of an always-live peer),
        progress (unlock of a held room wanted by such a peer grants something)."""
        if self.engine_of_ops(ops)[0] == "dv-lockconn":
            return self.oracle_conn(ops, outs)
        res = []
        _, h = kv(ops[0])
        mx = int(h.get("max", "0"))
        held = {}                 # room -> ch
        dead = set()
        pending = {}              # peer -> set(rooms) (under-approximation)
        chan_of = {}              # peer -> current ch
        tainted = set()           # peers that ever had a dead channel
        peer_of_ch = {}
        ever = {}                 # peer -> rooms ever requested
        arrival = {}              # (peer, room) -> op index at which the room became pending
        overtaken = {}            # (peer, room) -> grants of room to later arrivals meanwhile
        for opi, (op, out) in enumerate(zip(ops[1:], outs[1:])):
            k, a = kv(op)
            grants = []
            if out.startswith("grants "):
                for g in out.split(" ", 1)[1].split(","):
                    c, r = g.split(":"); grants.append((int(c), int(r)))
            elif out != "grants":
                res.append(("malformed", out)); break
            wanted_free = None
            if k == "req":
                p, ch = int(a["p"]), int(a["ch"])
                rooms = [int(x) for x in a.get("rooms", "").split(",") if x]
                chan_of[p] = ch; peer_of_ch[ch] = p
                if ch in dead: tainted.add(p)
                pending.setdefault(p, set()).update(rooms)
                ever.setdefault(p, set()).update(rooms)
                for r in rooms: arrival.setdefault((p, r), opi)
            elif k == "unlock":
                r = int(a["r"])
                if r in held:
                    del held[r]
                    for p, rs in pending.items():
                        if r in rs and p not in tainted and chan_of.get(p) not in dead:
                            wanted_free = r
            elif k == "drop":
                ch = int(a["ch"]); dead.add(ch)
                if ch in peer_of_ch: tainted.add(peer_of_ch[ch])
                for p, c in chan_of.items():
                    if c == ch: tainted.add(p)
            seen = set()
            for c, r in grants:
                if r in held: res.append(("exclusive", "room %d granted to ch %d while held by ch %d" % (r, c, held[r])))
                if r in seen: res.append(("exclusive", "room %d granted twice in one step" % r))
                seen.add(r)
                if c in dead: res.append(("dead-grant", "grant on dropped channel %d" % c))
                # a request replaces the reply channel of its peer: a grant belongs on the channel of the peer's LATEST request
                # (a connection that asked again on a new channel would otherwise never hear of its rooms)
                pc = peer_of_ch.get(c)
                if pc is not None and chan_of.get(pc) is not None and chan_of.get(pc) != c:
                    res.append(("grant-on-stale-channel", "room %d granted on channel %d of peer %d whose latest request came on channel %d" % (r, c, pc, chan_of[pc])))
                held[r] = c
                p = peer_of_ch.get(c)
                if p is None or r not in ever.get(p, set()):
                    res.append(("unrequested", "room %d granted to ch %d which never requested it" % (r, c)))
                elif p is not None:
                    pending[p].discard(r)
                    mine = arrival.pop((p, r), opi)
                    # a peer that is SERVED is not being overtaken: the clause (and `C20_bounded_bypass`) is about a waiting peer
                    # that gets nothing; which of its own rooms a served peer receives first is its own order (rooms it asks for
                    # again go first, "hot rooms are updated first") — thorough run, 60000 random sequences: a peer that kept
                    # re-requesting the room it had just released was given that room each time and its other room went to others
                    for key in [k for k in overtaken if k[0] == p]:
                        overtaken.pop(key, None)
                    # fairness: a peer that asked for r EARLIER, still waits (live receiver) and sees r go to a later arrival
                    for p2, rs in pending.items():
                        if p2 != p and r in rs and p2 not in tainted and chan_of.get(p2) not in dead \
                                and arrival.get((p2, r), opi) < mine:
                            overtaken[(p2, r)] = overtaken.get((p2, r), 0) + 1
                            if overtaken[(p2, r)] >= 3:
                                res.append(("overtaken-by-later-arrivals",
                                            "peer %d has waited for room %d since op %d and saw it granted %d times to peers that asked later" % (
                                                p2, r, arrival[(p2, r)], overtaken[(p2, r)])))
            if len(held) > mx: res.append(("bounded", "%d rooms held, limit %d" % (len(held), mx)))
            if wanted_free is not None and not grants:
                res.append(("progress", "unlock of room %d wanted by a live peer granted nothing" % wanted_free))
            if len(held) < mx:
                for p, rs in pending.items():
                    if p in tainted or chan_of.get(p) in dead: continue
                    free = [r for r in rs if r not in held]
                    if free:
                        res.append(("missed-wakeup", "peer %d waits for free room %d with %d/%d slots used" % (p, free[0], len(held), mx)))
                        break
            if res: break
        return res


    def oracle_conn(self, ops, outs):
        """System-level oracle on REAL connections (engine lockconn): a room is never being synchronised by two
        connections at once, nor by a connection while an outside party holds its lock; at most `max` rooms are
        held. A raw `unlock r` by an outside party that does not hold r is a misbehaviour of that party: from then
        on room r is not judged."""
        res = []
        _, h = kv(ops[0])
        mx = int(h.get("max", "0"))
        pseudo = {}      # room -> ch (outside parties)
        tainted = set()
        for op, out in zip(ops[1:], outs[1:]):
            k, a = kv(op)
            if " | sync" not in out:
                if out != "bad-op": res.append(("malformed", out))
                break
            g, sy = out.split(" | sync")
            grants = [tuple(map(int, x.split(":"))) for x in g.split(" ", 1)[1].split(",")] if g.startswith("grants ") else []
            sync = [tuple(map(int, x.split(":"))) for x in sy.strip().split(",")] if sy.strip() else []
            if k == "unlock":
                r = int(a["r"])
                if r in pseudo: del pseudo[r]
                else: tainted.add(r)
            for ch, r in grants:
                if r in pseudo and r not in tainted:
                    res.append(("exclusive-system", "room %d granted to outside ch %d while outside ch %d holds it" % (r, ch, pseudo[r])))
                pseudo[r] = ch
            by_room = {}
            for c, r in sync: by_room.setdefault(r, []).append(c)
            for r, cs in by_room.items():
                if r in tainted: continue
                if len(cs) > 1:
                    res.append(("exclusive-system", "room %d is being synchronised by connections %s at once" % (r, cs)))
                if r in pseudo:
                    res.append(("exclusive-system", "room %d is being synchronised by connection %d while its lock is held by outside ch %d" % (r, cs[0], pseudo[r])))
            if not tainted and len(set(by_room) | set(pseudo)) > mx:
                res.append(("bounded-system", "%d rooms held, limit %d" % (len(set(by_room) | set(pseudo)), mx)))
            if res: break
        return res

    def nontrivial(self, ops, outs):
        return any(o.startswith("grants ") and not o.startswith("grants |") for o in outs) or any(o.rstrip().endswith("sync") is False and "| sync " in o for o in outs)


CHECK = C20()
