"""C20 — room synchronisation locks: exclusive, bounded, never lost."""
import os
from . import lib
from .engine import Cfg


def kv(line):
    t = line.split()
    return t[0], dict(x.split("=", 1) for x in t[1:] if "=" in x)


class C20(Cfg):
    prop = "C20"
    prop_module = "DiscretModel.Props.C20"
    lean_targets = ["dmodel_lock"]
    harness_pkg = "dv-lock"
    model_exe = "dmodel_lock"
    design_ref = "DESIGN.md §6 C20, App. A.9"
    technique = "Lean 4 invariant/trace proofs over a literal model of the lock actor + exhaustive correspondence run against the real actor"
    level_text = ("Theorems (Lean 4, no bound on peers, rooms, limit or sequence length) about a literal model of the RoomLockService actor: "
                  "locked rooms distinct, locked+available=max (no underflow), queue/map agreement, between two grants of a room there is an unlock of it, "
                  "no missed wake-up (spare capacity => every pending room is locked), same-step progress on unlock, grants only to live receivers, pending-room accounting. "
                  "The model is tied to the code by running the real actor and the compiled model on the same op sequences: all sequences over 2-3 peers, 2-3 rooms, limits 1-2 up to a bounded length (exhaustive) plus random long runs, outputs diffed, and an independent spec-level oracle on the implementation's observations. "
                  "System-level exclusivity across connections is shown NOT to hold in the connection model (double unlock, grant in flight at close: decide-checked witnesses); starvation-freedom is not proved.")
    level_note = ("Trusted: Lean kernel (+propext, Classical.choice, Quot.sound), the hand-written model and its correspondence harness, tokio channel semantics. "
                  "Modelled and exercised: room_locking_service.rs. Modelled only (not exercised): the connection side in peer_inbound_service.rs. Not covered: real multi-thread timing.")
    trusted_base = [
        "hand-written model lean/DiscretModel/Model/Lock.lean of room_locking_service.rs, tied by the correspondence run (dv-lock vs dmodel_lock)",
        "harness/lock (drives the real RoomLockService actor on a current-thread tokio runtime; quiescence by yielding)",
        "connection side (LockConn.lean) is modelled from peer_inbound_service.rs and NOT exercised against the code",
    ]
    assumptions = [
        "tokio mpsc channels are FIFO and lossless; UnboundedSender::send fails iff the receiver was dropped",
        "starvation-freedom (every request eventually granted) is not proved; no-missed-wake-up and same-step progress are",
    ]

    def streams(self, tier, seed, work, dv):
        res = []
        plan = [(2, 2, 4, 1), (2, 2, 3, 2), (3, 2, 3, 1)] if tier == "quick" else \
               [(2, 2, 5, 1), (2, 2, 5, 2), (3, 3, 4, 1), (3, 3, 4, 2), (3, 2, 5, 1)]
        for (p, r, l, m) in plan:
            path = os.path.join(work, "enum_p%d_r%d_l%d_m%d.ops" % (p, r, l, m))
            lib.sh([dv, "enum", "--peers", str(p), "--rooms", str(r), "--len", str(l), "--max", str(m),
                    "--out", path], check=True)
            res.append(("enum p=%d r=%d len=%d max=%d" % (p, r, l, m), path, True))
        n = 3000 if tier == "quick" else 60000
        path = os.path.join(work, "random.ops")
        lib.sh([dv, "gen", "--seed", str(seed), "--n", str(n), "--len", "30", "--out", path], check=True)
        res.append(("random seed=%d n=%d" % (seed, n), path, False))
        return res

    def nontrivial(self, ops, outs):
        return any(o.startswith("grants ") for o in outs)

    def oracle(self, ops, outs):
        """Spec-level oracle, independent of the model's algorithm:
        exclusive (no grant of a held room), bounded (held <= max), grants only to live receivers,
        no missed wake-up (spare capacity => no known-pending free room of an always-live peer),
        progress (unlock of a held room wanted by such a peer grants something)."""
        res = []
        _, h = kv(ops[0])
        mx = int(h.get("max", "0"))
        held = {}                 # room -> ch
        dead = set()
        pending = {}              # peer -> set(rooms) (under-approximation)
        chan_of = {}              # peer -> current ch
        tainted = set()           # peers that ever had a dead channel
        peer_of_ch = {}
        ever = {}                 # peer -> rooms ever requested
        arrival = {}              # (peer, room) -> op index at which the room became pending
        overtaken = {}            # (peer, room) -> grants of room to later arrivals meanwhile
        for opi, (op, out) in enumerate(zip(ops[1:], outs[1:])):
            k, a = kv(op)
            grants = []
            if out.startswith("grants "):
                for g in out.split(" ", 1)[1].split(","):
                    c, r = g.split(":"); grants.append((int(c), int(r)))
            elif out != "grants":
                res.append(("malformed", out)); break
            wanted_free = None
            if k == "req":
                p, ch = int(a["p"]), int(a["ch"])
                rooms = [int(x) for x in a.get("rooms", "").split(",") if x]
                chan_of[p] = ch; peer_of_ch[ch] = p
                if ch in dead: tainted.add(p)
                pending.setdefault(p, set()).update(rooms)
                ever.setdefault(p, set()).update(rooms)
                for r in rooms: arrival.setdefault((p, r), opi)
            elif k == "unlock":
                r = int(a["r"])
                if r in held:
                    del held[r]
                    for p, rs in pending.items():
                        if r in rs and p not in tainted and chan_of.get(p) not in dead:
                            wanted_free = r
            elif k == "drop":
                ch = int(a["ch"]); dead.add(ch)
                if ch in peer_of_ch: tainted.add(peer_of_ch[ch])
                for p, c in chan_of.items():
                    if c == ch: tainted.add(p)
            seen = set()
            for c, r in grants:
                if r in held: res.append(("exclusive", "room %d granted to ch %d while held by ch %d" % (r, c, held[r])))
                if r in seen: res.append(("exclusive", "room %d granted twice in one step" % r))
                seen.add(r)
                if c in dead: res.append(("dead-grant", "grant on dropped channel %d" % c))
                held[r] = c
                p = peer_of_ch.get(c)
                if p is None or r not in ever.get(p, set()):
                    res.append(("unrequested", "room %d granted to ch %d which never requested it" % (r, c)))
                elif p is not None:
                    pending[p].discard(r)
                    mine = arrival.pop((p, r), opi)
                    overtaken.pop((p, r), None)
                    # fairness: a peer that asked for r EARLIER, still waits (live receiver) and sees r go to a later arrival
                    for p2, rs in pending.items():
                        if p2 != p and r in rs and p2 not in tainted and chan_of.get(p2) not in dead \
                                and arrival.get((p2, r), opi) < mine:
                            overtaken[(p2, r)] = overtaken.get((p2, r), 0) + 1
                            if overtaken[(p2, r)] >= 3:
                                res.append(("overtaken-by-later-arrivals",
                                            "peer %d has waited for room %d since op %d and saw it granted %d times to peers that asked later" % (
                                                p2, r, arrival[(p2, r)], overtaken[(p2, r)])))
            if len(held) > mx: res.append(("bounded", "%d rooms held, limit %d" % (len(held), mx)))
            if wanted_free is not None and not grants:
                res.append(("progress", "unlock of room %d wanted by a live peer granted nothing" % wanted_free))
            if len(held) < mx:
                for p, rs in pending.items():
                    if p in tainted or chan_of.get(p) in dead: continue
                    free = [r for r in rs if r not in held]
                    if free:
                        res.append(("missed-wakeup", "peer %d waits for free room %d with %d/%d slots used" % (p, free[0], len(held), mx)))
                        break
            if res: break
        return res


CHECK = C20()
