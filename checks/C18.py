"""C18 — every committed change is announced."""
import os, re
from . import lib
from .engine import Cfg


def kv(line):
    t = line.split()
    return (t[0] if t else ""), dict(x.split("=", 1) for x in t[1:] if "=" in x)


def parse_obs(out):
    """'<status> ev <tokens> | g <cells>' -> (status, [tokens], set(cells)) or None"""
    m = re.match(r"^(\S+) ev ?(.*?) ?\| g ?(.*)$", out)
    if not m: return None
    toks = [t for t in m.group(2).split(" ") if t]
    cells = set(c for c in m.group(3).split(",") if c)
    return m.group(1), toks, cells


def data_cells(tok):
    m = re.match(r"^D(?:x\d+)?\[(.*)\]$", tok)
    if not m: return None
    return set(c for c in m.group(1).split(",") if c)


class C18(Cfg):
    prop = "C18"
    prop_module = "DiscretModel.Props.C18"
    lean_targets = ["dmodel_events"]
    harness_pkg = "dv-events"
    model_exe = "dmodel_events"
    design_ref = "DESIGN.md §6 C18, App. A.3, A.5, A.7"
    technique = ("Lean 4 invariant proofs over a model of marks / recompute passes / emitted events (any sequence, any batching) and of what every "
                 "entry point marks + correspondence run against the real GraphDatabaseService with eager subscribers + independent content-diff oracle")
    level_text = ("Theorems (Lean 4; no bound on rooms, entities, days, batch sizes, sequence lengths or sites). Writer level, for ANY batching of ANY sequence of changes and "
                  "recompute requests: a pass reports exactly the entries it found marked and leaves no mark; every cell marked by a committed change is still marked or in an event emitted after "
                  "its batch; a recompute item in any later batch (what the API guarantees by requesting after the acknowledgement) puts it in an event after the change; from a clean database every "
                  "schedule with that ordering announces exactly the marked cells (nothing lost or invented by batching/concurrency). API level, for every operation in every state (mutation, update, room move, "
                  "no-op update, reference add/remove, deletion, reference deletion, stream, room mutation, ingestion of a room from another site, concurrent mix): with Defects.none every (room, entity, day) whose stored "
                  "content gains a row version or tombstone is in a data-changed event triggered by that operation; an accepted room-definition change is followed by a room-modified event carrying the validated, installed definition. "
                  "For the code as implemented the statement is proved under a decidable guard (C18_partial) and two decide-checked witnesses show it is false without it: a reference deletion naming an absent reference re-dates the row and marks nothing; "
                  "a mutation stream requests its recompute when closed, not after its acknowledgements. Tie: the real GraphDatabaseService (1-2 instances, 1-3 eager subscribers, logical clock over several days) and the compiled model run the same op files; "
                  "observations (events in order, cells gained by the stored content) are diffed; an oracle independent of the model compares the gained cells (SQL diff of rows/tombstones) with the events received.")
    level_note = ("Trusted: Lean kernel (+propext, Classical.choice, Quot.sound), the hand-written model and its correspondence harness, SQLite, tokio channels (FIFO, lossless; broadcast loses events for a lagging receiver: "
                  "the harness subscribers drain eagerly, stated limit). Modelled and exercised: daily_log.rs marks/compute, process_batch_write mark placement, graph_database.rs request sites and event construction, "
                  "mutation_query/deletion/node/edge update_daily_logs, room-mutation notification. Ingested batches are delivered by calling the ingestion entry points with rows exported from a second in-process instance "
                  "(the call sequence of synchronise_day), not over the network. Not covered: failure of a batch (C13), the unknown-short-name branch (unreachable through the entry points; model witness only), "
                  "synchronise_room aborting between ingestion and its recompute request (from reading: no request is sent; owned by the sync engine).")
    trusted_base = [
        "hand-written model lean/DiscretModel/Model/Events.lean of daily_log.rs / sqlite_database.rs::process_batch_write / graph_database.rs / update_daily_logs sites, tied by the correspondence run (dv-events vs dmodel_events)",
        "harness/events (drives real GraphDatabaseService instances; waits for exactly the number of data-changed events the operation's recompute requests produce, then a barrier event through the event service's own queue)",
        "the content-diff oracle: SQL over _node/_node_deletion_log/_edge_deletion_log on the instance's reader connection",
        "hook AuthorisationMessage::VerifGetRoom (installed room definition, read only)",
    ]
    assumptions = [
        "tokio mpsc/flume channels are FIFO and lossless; a tokio broadcast receiver that lags loses events by contract (subscribers drain eagerly; not modelled)",
        "a write batch that fails is out of scope (C13); the clock is the harness's logical clock (distinct mdates for distinct operations)",
        "'day of a change' = day of the new row version / of the tombstone's deletion date; days that only lose a row (old day of a re-dated row) are C09's concern",
    ]

    def streams(self, tier, seed, work, dv):
        res = []
        plan = [(seed, 90, 18)] if tier == "quick" else [(seed, 1200, 18), (seed + 1, 500, 40)]
        for i, (sd, n, ln) in enumerate(plan):
            path = os.path.join(work, "random%d.ops" % i)
            lib.sh([dv, "gen", "--prop", "C18", "--seed", str(sd), "--n", str(n), "--len", str(ln), "--out", path], check=True)
            res.append(("random seed=%d n=%d len=%d" % (sd, n, ln), path, False))
        return res

    def nontrivial(self, ops, outs):
        return any(re.search(r"D(x\d+)?\[\d", o) for o in outs)

    def oracle(self, ops, outs):
        """Property-level oracle on the implementation's observations only:
        every cell whose stored content gained a row version / tombstone during an acknowledged operation must be
        named by a data-changed event received for that operation (for a stream: after its mutations reached the
        writer); an accepted room-definition change must be followed by a room-modified event carrying the installed room;
        all subscribers receive the same events; no expected event is missing."""
        res = []
        for op, out in zip(ops[1:], outs[1:]):
            k, a = kv(op)
            if out in ("ok", "skip", "dead"): continue
            if out == "bad-op":
                res.append(("malformed", op)); break
            p = parse_obs(out)
            if p is None:
                res.append(("malformed", out)); break
            status, toks, gained = p
            if status.startswith("timeout") or status == "barrier-timeout":
                res.append(("missing-data-event", "%s -> %s" % (op, out))); break
            if status == "subs-differ":
                res.append(("subscribers-differ", "%s -> %s" % (op, out))); break
            if any(t.startswith("LAGGED") for t in toks):
                res.append(("subscriber-lagged", "%s -> %s" % (op, out))); break
            if status.startswith("err:"):
                continue        # not acknowledged: nothing to announce
            after = toks[len(toks) - toks[::-1].index("W"):] if "W" in toks else toks
            announced = set()
            for t in after:
                c = data_cells(t)
                if c is not None: announced |= c
            missing = sorted(gained - announced)
            if missing:
                if k == "refdel":
                    sig = "reference-deletion-redates-row-unannounced"
                elif k == "stream" and a.get("mode") == "early":
                    sig = "stream-recompute-requested-before-acknowledgements"
                elif k == "stream":
                    sig = "streamed-change-unannounced"
                else:
                    sig = "unannounced-change"
                res.append((sig, "%s: cells %s gained content but no data-changed event of the operation names them (%s)" % (
                    op, ",".join(missing), out)))
            # room-definition changes
            rooms_expected = []
            if k in ("room", "roomadd") and status == "ok": rooms_expected.append(a.get("r"))
            if k == "pull" and status == "ok+def": rooms_expected.append(a.get("r"))
            if k == "mix" and status == "ok":
                for sub in a.get("ops", "").split(";"):
                    if sub.startswith("roomadd,"):
                        # a sub-operation that is not applicable is dropped by the harness: only check the ones announced
                        pass
            for r in rooms_expected:
                evs = [t for t in toks if re.match(r"^R%s(x\d+)?:" % re.escape(r or "?"), t)]
                if not evs:
                    res.append(("room-change-unannounced", "%s -> %s" % (op, out)))
                elif not evs[-1].endswith("="):
                    res.append(("room-event-not-the-installed-definition", "%s -> %s" % (op, out)))
            for t in toks:
                if re.match(r"^R\w+(x\d+)?:", t) and t.endswith("!"):
                    res.append(("room-event-not-the-installed-definition", "%s -> %s" % (op, out)))
            if res: break
        return res


CHECK = C18()
