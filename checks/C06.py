"""C06 — a signature binds exactly one row and only its author can produce it."""
import os
from . import lib, engine
from .engine import Cfg

GEN_FILE = os.path.join(lib.LEAN, "DiscretModel", "Gen", "DigestLayout.lean")
OPTIONAL = {"room_id", "_json", "_binary"}          # of a node
VARIABLE = {"_entity", "_json", "_binary", "src_entity", "label", "entity"}


def parse(line):
    t = line.split()
    kv = {}
    for x in t[1:]:
        if "=" in x:
            k, v = x.split("=", 1)
            kv[k] = v
    return (t[0] if t else ""), kv


def rows_of(kv):
    a = {k[2:]: v for k, v in kv.items() if k.startswith("a.")}
    b = {k[2:]: v for k, v in kv.items() if k.startswith("b.")}
    if "spk" in kv: a["verifying_key"] = kv["spk"]          # sign() installs the signer's key
    return a, b


def classify(ka, kb, a, b):
    """shape of a collision between two different rows; anything but the three known shapes is new.
    The known shapes come from concatenating fields without lengths / presence / kind: they need either two
    kinds, or a presence flag that differs, or at least two adjacent fields whose bytes moved. A pair that
    differs in ONE field only (other than an empty-vs-absent optional) is never one of them."""
    if ka != kb: return "cross-kind-collision"
    diff = [f for f in set(a) | set(b) if a.get(f) != b.get(f)]
    if len(diff) == 1:
        f = diff[0]
        if ka == "node" and f in OPTIONAL and {a.get(f), b.get(f)} == {"", "-"}: return "optional-presence-collision"
        return "single-field-collision"
    if any((a.get(f) == "-") != (b.get(f) == "-") for f in OPTIONAL if ka == "node"):
        return "optional-presence-collision"
    if any(len(a.get(f, "")) != len(b.get(f, "")) for f in VARIABLE if f in a or f in b):
        return "boundary-shift-collision"
    return "same-shape-collision"


class C06(Cfg):
    prop = "C06"
    prop_module = "DiscretModel.Props.C06"
    lean_targets = ["dmodel_digest"]
    harness_pkg = "dv-digest"
    model_exe = "dmodel_digest"
    design_ref = "DESIGN.md §6 C06, §3.2 T2, §4 sites 16/17/7"
    technique = ("Lean 4 injectivity proofs over an encoding model whose field lists are regenerated from the Rust sources on every run "
                 "(translator T2) + decide-checked collision witnesses + correspondence run of the real sign()/verify() and the real ProveIdentity request")
    level_text = ("Theorems (Lean 4, no bound on field lengths or contents): for an encoding that binds lengths, presence and kind the digest input is injective on the disjoint union "
                  "of all seven signed kinds and no signing request yields a row signature (full statement, Defects.none). For the code as it is the full statement is FALSE: "
                  "decide-checked witnesses (entity/_json boundary, src_entity/label boundary, optional room_id, empty vs absent _binary, deletion record vs row, identity-challenge signing oracle), "
                  "each replayed on the real sign()/verify(). Proved for the code as it is: within a shape class (same kind, same presence flags, same encoded field lengths) the digest determines the row, "
                  "for fields of any length; every stored field of every kind is in its digest and sign/verify of the deletion records hash the same list (decide on the table regenerated from the sources); "
                  "the 48-byte announce digest collides with no row. Tie: the real code signs r1, the signature is moved to r2, real verify() is observed and must equal the model's prediction; "
                  "challenge bytes are submitted to the real process_inbound(ProveIdentity) of a running instance and the answer is tried as a row signature.")
    level_note = ("Trusted: Lean kernel (+propext, Classical.choice, Quot.sound), idealised hash (injective) and signatures (symbolic), translator T2 (regex level), the correspondence harness. "
                  "Modelled and exercised: node.rs/edge.rs digests, sign, verify, import_verifying_key's checks, ProveIdentity -> AuthorisationMessage::Sign, Invite::create. "
                  "Modelled only: AnnounceHeader::hash (layout from T2, not exercised). Not modelled: the JSON grammar (validity of _json is an input flag), blake3, Ed25519.")
    trusted_base = [
        "idealised cryptography: hash = identity on the bytes fed to the hasher, signature = (signer, message); nothing is claimed about blake3/Ed25519",
        "translator /verif/translators/digest_layout.py (regex level) regenerating Gen/DigestLayout.lean from node.rs, edge.rs, network/mod.rs, system_entities.rs, synchronisation/*.rs, authorisation_service.rs",
        "hand-written model lean/DiscretModel/Model/Digest.lean (how a field of each type reaches the hasher; serde_json string escaping), tied by the correspondence run (dv-digest vs dmodel_digest)",
        "the validity of a `_json` text as a JSON object is an input flag of the model (computed by serde_json in the generator)",
    ]
    assumptions = [
        "rows are well-typed: 16-byte ids, 33-byte exported keys, i64 dates, field lengths below 2^64",
        "verifying keys used in the correspondence run are valid curve points or structurally malformed (empty, wrong flag, wrong length)",
        "an invitation id is a fresh uid chosen by the instance (never equal to an id written by the generator)",
    ]

    def run(self, tier, seed):
        from translators import digest_layout
        repo = digest_layout.repo_of_harness(lib.HARNESS)
        with lib.Lock("lake"):
            err = digest_layout.generate(repo, GEN_FILE)
        self.trusted_base = list(C06.trusted_base) + [
            "T2 this run: source %s, %s" % (repo, "PARSE FAILURE: " + err if err else "parsed")]
        return engine.run(self, tier, seed)

    def streams(self, tier, seed, work, dv):
        n, m = (25000, 1000) if tier == "quick" else (500000, 15000)
        p = os.path.join(work, "pairs.ops")
        lib.sh([dv, "gen", "--seed", str(seed), "--n", str(n), "--out", p], check=True)
        q = os.path.join(work, "requests.ops")
        lib.sh([dv, "gen-oracle", "--seed", str(seed), "--n", str(m), "--out", q], check=True)
        st = os.path.join(work, "store.ops")
        self.store_ops(seed, 120 if tier == "quick" else 3000, st)
        return [("pairs seed=%d n=%d" % (seed, n), p, False), ("signing-requests seed=%d n=%d" % (seed, m), q, False),
                ("stored rows replaced by another author seed=%d" % seed, st, False)]

    @staticmethod
    def store_ops(seed, n, path):
        """`store` ops: a row / reference is written, then a second version with the same key — another author, another
        date, other content — is written over it through the real `write`; what is read back must be the second version
        and must verify. Fields stay inside what `sign()` accepts (non-empty entity / label, JSON object)."""
        import random
        r = random.Random(seed * 7919 + 11)
        hx = lambda b: bytes(b).hex()
        uid = lambda: hx(r.randrange(256) for _ in range(16))
        word = lambda: hx(r.choice(b"abcdefgh0123") for _ in range(1 + r.randrange(6)))
        with open(path, "w") as f:
            for i in range(n):
                f.write("case id=%d\n" % i)
                s1 = r.randrange(4)
                s2 = r.choice([s1, r.randrange(4), (s1 + 1) % 4])
                if r.randrange(2):
                    src, dst, lab = uid(), uid(), word()
                    ent1 = word(); ent2 = r.choice([ent1, word()])
                    c1 = r.randrange(1, 10 ** 12); c2 = r.choice([c1, c1 + 1, r.randrange(1, 10 ** 12)])
                    f.write("store ka=edge kb=edge signer=%d signer2=%d a.src=%s a.src_entity=%s a.label=%s a.dest=%s a.cdate=%d "
                            "b.src=%s b.src_entity=%s b.label=%s b.dest=%s b.cdate=%d\n" % (s1, s2, src, ent1, lab, dst, c1, src, ent2, lab, dst, c2))
                else:
                    nid, ent = uid(), word()
                    room1 = r.choice(["-", uid()]); room2 = r.choice([room1, "-", uid()])
                    c = r.randrange(1, 10 ** 12); m1 = c + r.randrange(1000); m2 = r.choice([m1, m1 + 1, m1 + r.randrange(10 ** 6)])
                    js = lambda: r.choice(["-", hx(b"{}"), hx(('{"32":"%s"}' % "".join(r.choice("abcxyz") for _ in range(r.randrange(8)))).encode())])
                    bn = lambda: r.choice(["-", "-", hx(r.randrange(256) for _ in range(r.randrange(6)))])
                    f.write("store ka=node kb=node signer=%d signer2=%d a.id=%s a.room_id=%s a.cdate=%d a.mdate=%d a._entity=%s a._json=%s a._binary=%s "
                            "b.id=%s b.room_id=%s b.cdate=%d b.mdate=%d b._entity=%s b._json=%s b._binary=%s\n" % (
                                s1, s2, nid, room1, c, m1, ent, js(), bn(), nid, room2, c, m2, ent, js(), bn()))

    def nontrivial(self, ops, outs):
        return any(o.split(" ")[-1] in ("accept", "reject") for o in outs[1:])

    def oracle(self, ops, outs):
        """Independent of the model: a signature made for one row (or returned by a signing request)
        must verify for that row as stored and for nothing else."""
        res = []
        for op, out in zip(ops[1:], outs[1:]):
            kind, kv = parse(op)
            verdict = out.split(" ")[-1]
            if kind == "pair":
                a, b = rows_of(kv)
                same = kv.get("ka") == kv.get("kb") and a == b
                if verdict == "accept" and not same:
                    sig = classify(kv.get("ka"), kv.get("kb"), a, b)
                    diff = sorted(f for f in set(a) | set(b) if a.get(f) != b.get(f))
                    res.append((sig, "signature of a %s accepted on a different %s (fields %s)" % (kv.get("ka"), kv.get("kb"), ",".join(diff))))
                elif same and verdict == "reject":
                    res.append(("stored-row-rejected", "a %s signed by the real code does not verify as stored" % kv.get("ka")))
            elif kind == "oracle":
                if verdict == "accept":
                    res.append(("challenge-signing-oracle",
                                "the answer to ProveIdentity verifies as the signature of a %s the instance never signed" % kv.get("kb")))
            elif kind == "invite":
                if verdict == "accept":
                    res.append(("invite-signature-as-row", "an invitation signature verifies as a %s" % kv.get("kb")))
                elif out == "invite-unverifiable":
                    res.append(("invite-unverifiable", "the invitation's own signature check fails"))
            if out in ("bad-op",) or out.startswith("err:"):
                res.append(("harness-error", out))
        return res


CHECK = C06()
