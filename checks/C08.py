"""C08 — a peer is served data only for rooms it is a member of."""
import os
from . import lib, engine
from .engine import Cfg

GEN_FILE = os.path.join(lib.LEAN, "DiscretModel", "Gen", "ServeTable.lean")
OWN = "1"


def parse(line):
    t = line.split()
    return (t[0] if t else ""), dict(x.split("=", 1) for x in t[1:] if "=" in x)


class Rooms:
    """independent evaluation of membership from the event list of the case"""

    def __init__(self):
        self.entries = {"0": [("admin", OWN, 1000, True)]}      # room -> [(role, key, date, enabled)] in insertion order

    def create(self, r, t):
        self.entries[r] = [("admin", OWN, t, True)]

    def add(self, r, role, k, t, en, g="0"):
        # an entry list is per role and, for users and user admins, per authorisation group
        self.entries.setdefault(r, []).append((role if role == "admin" else role + "/" + g, k, t, en))

    def valid_at(self, r, k, d):
        for role in sorted({ro for (ro, _, _, _) in self.entries.get(r, [])}):
            last = None
            for (ro, key, t, en) in self.entries.get(r, []):
                if ro == role and key == k and t <= d: last = en       # later insertions win ties
            if last: return True
        return False

    def ever_valid(self, r, k, now):
        return any(self.valid_at(r, k, t) for (_, key, t, _) in self.entries.get(r, []) if key == k and t <= now)

    def named(self, r, k):
        return any(key == k for (_, key, _, _) in self.entries.get(r, []))


class C08(Cfg):
    prop = "C08"
    prop_module = "DiscretModel.Props.C08"
    lean_targets = ["dmodel_serve"]
    harness_pkg = "dv-serve"
    model_exe = "dmodel_serve"
    design_ref = "DESIGN.md §6 C08, §3.2 T1, §4 site 25, App. A.11"
    technique = ("Lean 4 invariant proofs over a model of the serving side whose request table, membership re-check and room-definition event rule are regenerated from peer_outbound_service.rs / peer_inbound_service.rs on every run (translator T1/T1b) "
                 "+ decide-checked witnesses + correspondence run of the real InboundQueryService loop on a real database (exhaustive product, membership-change sequences and random sequences)")
    level_text = ("Theorems (Lean 4, any sequence of handshake / requests of every kind with arbitrary identifiers / clock / room-definition changes carrying any definition / data changes, any length): "
                  "every data-bearing request kind is guarded by allowed_room.contains(room) with the database read inside the guarded branch on the guarded room, RoomList by key-proven-and-ready (decide on the regenerated table); the event handler admits a room only for a key that is a valid member at that moment (decide on the regenerated event rule); "
                  "before authentication the allowed table is empty and every request gets silence, a refusal or the identity proof; every data answer names a room of the allowed table and contains only rows of that room (row filters of node.rs/edge.rs/daily_log.rs modelled); "
                  "every allowed room was admitted for the proven key at a time t<=now at which the key was a valid member of the room according to the definition then in force. "
                  "The full statement holds of the code as it is (C08_full, C08_every_answer for Defects.asImplemented and the regenerated Gen.code): a data answer is produced only for a room of which the proven key is a valid member NOW according to the definition held when the request is answered, for every interleaving of requests, definition changes (any definition, also entries dated ahead of the clock) and clock moves, and a room whose membership ended is removed from the allowed table by the next request that names it; "
                  "the obligation that every room-guarded request kind is covered by the membership re-check is decided on the regenerated table (C08_code_rechecks: removing the re-check or leaving a kind out of it breaks the proof, and the oracle then reports former-member-still-served with a replay); "
                  "the serving loop before the repair is kept as Defects.beforeFix with its decide-checked witness (C08_breaks_formerMemberServed, corpus/C08/former_member_live_connection.ops); revoking only when the definition-change event arrives is shown insufficient (C08_revokeOnEvent_insufficient: an entry dated ahead of the clock); "
                  "the second defect found (a disabled-only user admitted through has_user on a definition change) was fixed in /repo (81b6434) and is kept as a regression witness and corpus case. "
                  "Tie: the real InboundQueryService::start loop (process_inbound + add_allowed_room) and the real process_local_event fed with the instance's real RoomModified events, on a real database with 3-4 rooms, rows, references, deletions and logs, plus room-less rows (private rows, room-definition rows, the sys.Peer row) named in Nodes/Edges requests; "
                  "requester in 6 membership states x 7 positions relative to authentication / room list / definition changes x every request kind x own/foreign/mixed/unknown identifiers (exhaustive product) + membership changing between requests on live connections (disabled, re-enabled, admin and user-admin demoted, moved between authorisation groups, a second connection with another key) x every request kind + random sequences; every Answer decoded with bincode and compared with the model; independent oracle on the decoded answers.")
    level_note = ("Trusted: Lean kernel (+propext, Classical.choice, Quot.sound), translator T1 (regex level; an unrecognised prelude, arm or event handler stops the obligations from checking), the hand-written model of the row filters and of rooms_for_peer/has_user (shared Room model), the correspondence harness. "
                  "Modelled and exercised: process_inbound (prelude + arms), add_allowed_room, process_local_event, Node/Edge::filtered_by_room, daily nodes, deletion logs, daily logs, room definition, peers_for_room. "
                  "A request is atomic in the model: a definition installed between the membership re-check and the database read of the same request is not modelled. "
                  "Not covered: the handshake that binds the key (C19), the QUIC transport, batching of large answers (answers here fit one batch).")
    trusted_base = [
        "translator /verif/translators/serve_table.py (regex level) regenerating Gen/ServeTable.lean (request table with guard / read / membership re-check per kind, event rule) from src/synchronisation/peer_outbound_service.rs, peer_inbound_service.rs and mod.rs",
        "hand-written model lean/DiscretModel/Model/Serve.lean (row filters, rooms_for_peer, has_user, allowed table) over the shared Model/Room.lean, tied by the correspondence run (dv-serve vs dmodel_serve)",
        "harness/serve: real GraphDatabaseService + real InboundQueryService::start + LocalPeerService::verif_process_local_event (hook); the key is bound by the harness as initialise_connection does (C19 covers that step)",
    ]
    assumptions = [
        "the proven key of a connection is bound once (initialise_connection runs once per connection)",
        "the clock does not go backwards",
        "answers fit in one batch (write_buffer_length); batching is not exercised",
    ]

    def run(self, tier, seed):
        from translators import serve_table
        repo = serve_table.repo_of_harness(lib.HARNESS)
        with lib.Lock("lake"):
            err = serve_table.generate(repo, GEN_FILE)
        self.trusted_base = list(C08.trusted_base) + [
            "T1 this run: source %s, %s" % (repo, "PARSE FAILURE: " + err if err else "parsed")]
        return engine.run(self, tier, seed)

    def streams(self, tier, seed, work, dv):
        p = os.path.join(work, "product.ops")
        lib.sh([dv, "enum08", "--out", p], check=True)
        n = 60 if tier == "quick" else 1200
        q = os.path.join(work, "random.ops")
        lib.sh([dv, "gen08", "--seed", str(seed), "--n", str(n), "--out", q], check=True)
        m = os.path.join(work, "membership.ops")
        lib.sh([dv, "memb08", "--out", m], check=True)
        return [("product membership(6) x position(7) x room(4) x request kinds/identifiers", p, True),
                ("membership changing between requests on live connections (disabled, re-enabled, admin / user admin demoted, moved between groups) x request kinds", m, False),
                ("random seed=%d n=%d" % (seed, n), q, False)]

    def nontrivial(self, ops, outs):
        return any(o.startswith("data ") and len(o.split()) > 2 or o.startswith("rooms ") for o in outs)

    def oracle(self, ops, outs):
        """no row, log entry, deletion record, definition or member list of a room of which the requester is not a
        member NOW; nothing before authentication; nothing of another room inside an answer"""
        res = []
        rooms = Rooms()
        conns = {}           # c -> {"key": k or None, "ready": bool}
        now = 1000
        for op, out in zip(ops[1:], outs[1:]):
            kind, kv = parse(op)
            if out == "bad-op" or out.startswith("err:"):
                if out != "err:mutation": res.append(("harness-error", "%s -> %s" % (op[:60], out)))
                continue
            if "t" in kv and kind in ("now", "room", "group", "member", "row", "ref", "delref", "delrow"):
                now = max(now, int(kv["t"]))
            if kind == "room": rooms.create(kv["r"], int(kv["t"]))
            elif kind == "member": rooms.add(kv["r"], kv["role"], kv["k"], int(kv["t"]), kv["en"] == "1", kv.get("g", "0"))
            elif kind == "open": conns[kv["c"]] = {"key": None, "ready": True}
            elif kind == "auth": conns[kv["c"]] = {"key": kv["k"], "ready": kv["ready"] == "1"}
            elif kind == "q":
                c = conns.get(kv["c"], {"key": None, "ready": True})
                k = c["key"]
                t = out.split()
                if t[0] == "fingerprint" and k != OWN:
                    res.append(("fingerprint-leak", "hardware fingerprint sent to key %s" % k))
                if t[0] == "rooms":
                    listed = t[1].split(",") if len(t) > 1 else []
                    if k is None: res.append(("served-before-authentication", "room list %s sent before authentication" % listed))
                    elif not c["ready"]: res.append(("room-list-before-ready", "room list sent on a connection that is not ready"))
                    else:
                        for r in listed:
                            if r == "?" or not rooms.valid_at(r, k, now):
                                res.append(("room-list-leak", "room %s listed for key %s which is not a member now" % (r, k)))
                if t[0] == "data":
                    r = t[1]
                    items = t[2].split(",") if len(t) > 2 else []
                    if not items and r not in rooms.entries: continue      # an empty answer about a room that does not exist
                    what = "%s of room %s (%d items)" % (kv.get("kind"), r, len(items))
                    if k is None:
                        res.append(("served-before-authentication", what + " served before authentication"))
                    elif not rooms.valid_at(r, k, now):
                        if rooms.ever_valid(r, k, now): sig = "former-member-still-served"
                        elif rooms.named(r, k): sig = "disabled-user-admitted"
                        else: sig = "non-member-served"
                        res.append((sig, what + " served to key %s which is not a member of it at %d" % (k, now)))
                    for it in items:
                        tag = it.split(":")[0]
                        if tag == "?" or it.endswith(":?"):
                            res.append(("unknown-row-in-answer", "%s contains a row the harness never created: %s" % (what, it)))
                        elif tag == "-" and kv.get("kind") != "PeersForRoom":
                            res.append(("roomless-row-in-answer", "%s contains a row that belongs to no room (private / system row): %s" % (what, it)))
                        elif tag != r and tag != "-":
                            res.append(("foreign-row-in-answer", "%s contains an item of room %s" % (what, tag)))
        return res


CHECK = C08()
