"""C12 — local acceptance and peer acceptance give the same verdict."""
import os
from . import lib
from .engine import Cfg
from .roomlib import kv, same_decisions, nest_tree, nest_existing
from .C01 import parse_dump


def peer_part(out):
    """`… peer=accept|refuse:a,b|partial:a,b;ok:c|none|stopped` -> (verdict, refused, accepted)"""
    i = out.rfind(" peer=")
    if i < 0: return None, [], []
    v = out[i + 6:]
    if v.startswith("refuse:"): return "refuse", v[7:].split(","), []
    if v.startswith("partial:"):
        a, _, b = v[8:].partition(";ok:")
        return "partial", a.split(","), [x for x in b.split(",") if x]
    return v, [], []


class C12(Cfg):
    prop = "C12"
    prop_module = "DiscretModel.Props.C12"
    lean_targets = ["dmodel_room"]
    harness_pkg = "dv-room"
    model_exe = "dmodel_room"
    design_ref = "DESIGN.md §6 C12, App. A.1-A.3, A.5"
    technique = ("Lean 4 proofs relating the model of the local write path (LocalWrite, C01) to the model of the peer ingestion path (Ingest, C02) "
                 "over the shared room model + correspondence run: every local operation (accepted or refused) is executed by the real local functions, "
                 "turned into the rows, references and deletion records a peer would receive, and ingested by a real GraphDatabaseService instance "
                 "holding the same room definitions and the same prior rows (add_nodes/add_edges/delete_nodes/delete_edges after filter_existing); both "
                 "verdicts are compared with the models' and with each other")
    level_text = ("Theorems (Lean 4, any rooms, database, caller, date): for the intended behaviour the local right check of a row change and the peer's "
                  "validate_node on the row produced give the same verdict — for a new row, a row of the same author, a foreign row, and a row that changes "
                  "room (both rooms are checked on both sides) — whenever the peer holds the same room definitions and the same previous version; hence a "
                  "mutation accepted locally has every row accepted by such a peer and a row refused by the peers makes the local mutation refuse. The statement "
                  "was FALSE in the direction 'accepted locally, refused by every peer' for three local defects (#1 nested sub-entity, #2 departing room, #3a re-signed source row: "
                  "decide-checked witnesses; fixed in /repo since, replays kept as regression cases) and still is for #3b (own reference deleted at a foreign row). The row-level "
                  "agreement holds for any switch values when the row does not change room and no reference of another author is removed. "
                  "References and deletion records are theorems too (mutation trees of any depth): C12_change_verdict (a change is accepted locally IFF the peer accepts its row AND every deletion record it sends), "
                  "C12_accepted_references_reach_peers, C12_accepted_records_reach_peers, C12_delete_node_verdict (any switches, both sides), C12_delete_ref_verdict (local verdict = peer's verdict on the re-signed row AND the record), "
                  "each against the ingest model's edgeAccepted / edgeDelAccepted / nodeDelAccepted / validateNode for a peer holding the same rooms, rows and references; the proof attempt found a further divergence "
                  "(C12_breaks_refRemovalRightOnRowAuthor: references of other authors removed by a mutation of an own row). The model pair is tied to /repo by the run.")
    level_note = ("Trusted: Lean kernel; models LocalWrite.lean (this engine) and Ingest.lean (engine `ingest`, C02), each tied by its own correspondence run; "
                  "here additionally the pair is run together. Not covered: values refused by the data model on one side only (explicit null, Json scalars — DESIGN #14, "
                  "engine `lang`), the size limit (same predicate on both sides, not exercised). The theorems on references and records assume normalised rights (all-rows grants own-rows: "
                  "EntityRight::new, applied on every construction path since be6bedc) and name what the peer must hold (the removed reference with its author, the source row).")
    trusted_base = [
        "models LocalWrite.lean and Ingest.lean, tied by the correspondence run (dv-room mode=fn peer=1 vs dmodel_room)",
        "harness/room/src/bench.rs: builds what a peer receives from the real MutationQuery/DeletionQuery values (wire round trip, slot assignment as synchronise_day does)",
    ]
    assumptions = [
        "the peer holds the same room definitions (checked on every case: decision matrices of both sides are compared) and the same previous rows (the feed stops at the first divergence)",
        "every operation of a case carries its own date (rows of one millisecond are tie-broken by signature bytes)",
    ]

    def streams(self, tier, seed, work, dv):
        n = 220 if tier == "quick" else 4000
        path = os.path.join(work, "ops.ops")
        lib.sh([dv, "gen", "--prop", "C12", "--seed", str(seed), "--n", str(n), "--out", path], check=True)
        return [("operations seed=%d n=%d" % (seed, n), path, False)]

    def nontrivial(self, ops, outs):
        return any(" peer=accept" in o or " peer=refuse" in o or " peer=partial" in o for o in outs)

    def oracle(self, ops, outs):
        """Implementation only: for every local operation, the local verdict against the verdict of a real peer
        holding the same definitions and rows on what the operation sends / would send."""
        res = []
        room_equal = {}
        last_robs = {}
        prev_rows = {}
        for i, (op, out) in enumerate(zip(ops, outs)):
            k, a = kv(op)
            if k == "robs":
                last_robs[a.get("r")] = out
                continue
            if k == "pobs":
                r = a.get("r")
                if r in last_robs:
                    room_equal[r] = same_decisions(last_robs[r], out)
                continue
            if k not in ("new", "upd", "nest", "null", "del", "delref"): continue
            verdict, refused, accepted = peer_part(out)
            if out == "bad-op" or verdict is None: continue
            local = out.split(" ", 1)[0]
            rows = parse_dump(out[:out.rfind(" peer=")])[1] if " N[" in out else {}
            before = prev_rows
            prev_rows = rows
            if verdict in ("none", "stopped"): continue
            if not all(room_equal.get(r, True) for r in room_equal):
                continue          # the precondition "same room definition" does not hold (a C10 matter)
            # the precondition "same prior versions": rows outside any room are not synchronised, so a peer does
            # not hold the previous version of a row that was room-less before this operation
            concerned = {a.get("h")} | nest_existing(a)
            if k == "delref": concerned = {a.get("h")}
            if any(before.get(h) and before[h][1] == "-" for h in concerned):
                continue
            if local == "ok" and verdict in ("refuse", "partial"):
                sig = "local-accepts-peer-refuses"
                rows_refused = [x for x in refused if x.startswith("n") or x.startswith("stale")]
                if k == "nest" and any(x != "n" + a["h"] and any(before.get(y) == rows.get(y) for y in nest_tree(a).get(x.split(":")[-1][1:], [a["h"]]))
                                       for x in rows_refused):
                    sig += ":nested-subnode-unchanged-parent"
                elif k in ("upd", "nest") and any(
                        before.get(h) and rows.get(h) and before[h][1] != rows[h][1] and before[h][1] != "-" for h in rows):
                    sig += ":move-departing-room"
                elif k == "delref" and rows_refused:
                    sig += ":ref-deletion-resigns-source-row"
                elif not rows_refused:
                    sig += ":reference-or-record-rule"
                res.append((sig, "line %d: %s accepted locally; a peer holding the same rooms and rows refuses %s" % (i, op, ",".join(refused))))
            elif local in ("err:rejected", "err:unknown-room") and verdict == "accept":
                # "a write that peers would refuse is refused locally": a local refusal must be matched by the refusal
                # of at least one of the rows/records the operation would have sent. (When the peer refuses some and
                # accepts others — `partial` — both sides refuse the operation: the accepted items are rows that are
                # allowed on their own, or references whose rule is C02's subject.)
                res.append(("local-refuses-peer-accepts",
                            "line %d: %s refused locally (%s); a peer holding the same rooms and rows accepts everything it would send"
                            % (i, op, local)))
        uniq, out_res = set(), []
        for sig, d in res:
            if sig not in uniq:
                uniq.add(sig); out_res.append((sig, d))
        return out_res


CHECK = C12()
