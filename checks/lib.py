"""Shared machinery of ./check: builds, audit, correspondence, shrinking, evidence, verdict."""
import fcntl, hashlib, json, os, re, shutil, subprocess, sys, time

ROOT = os.path.dirname(os.path.dirname(os.path.abspath(__file__)))
LEAN = os.path.join(ROOT, "lean")
HARNESS = os.environ.get("VERIF_HARNESS_DIR") or os.path.join(ROOT, "harness")
OUT = os.environ.get("VERIF_OUT") or ROOT      # work/, evidence/, replays/ live here (mutation runs redirect it)
REPO = "/repo"
ALLOWED_AXIOMS = {"propext", "Classical.choice", "Quot.sound"}
FORBIDDEN = [r"\bsorry\b", r"\badmit\b", r"^\s*axiom\s", r"\bnative_decide\b", r"\bbv_decide\b",
             r"implemented_by", r"\bunsafe\s", r"maxHeartbeats\s+0\b"]
ENV = dict(os.environ, CARGO_NET_OFFLINE="true")


class CheckError(Exception):
    """tooling failure: reported as an error of the check, never silently passed"""


def sh(cmd, cwd=None, timeout=None, stdin=None, check=False):
    t = time.time()
    p = subprocess.run(cmd, cwd=cwd, env=ENV, stdin=stdin, stdout=subprocess.PIPE,
                       stderr=subprocess.STDOUT, timeout=timeout, text=True, errors="replace")
    if check and p.returncode != 0:
        raise CheckError("command failed (%d): %s\n%s" % (p.returncode, " ".join(cmd), p.stdout[-4000:]))
    return p.returncode, p.stdout, time.time() - t


class Lock:
    def __init__(self, name):
        self.path = os.path.join(ROOT, "." + name + ".lock")

    def __enter__(self):
        self.f = open(self.path, "w")
        fcntl.flock(self.f, fcntl.LOCK_EX)

    def __exit__(self, *a):
        fcntl.flock(self.f, fcntl.LOCK_UN)
        self.f.close()


# ----------------------------------------------------------------------------- Lean side

def strip_comments(src):
    out, i, depth, n = [], 0, 0, len(src)
    while i < n:
        if src.startswith("/-", i):
            depth += 1; i += 2
        elif depth and src.startswith("-/", i):
            depth -= 1; i += 2
        elif depth:
            if src[i] == "\n": out.append("\n")
            i += 1
        elif src.startswith("--", i):
            while i < n and src[i] != "\n": i += 1
        else:
            out.append(src[i]); i += 1
    return "".join(out)


def lean_sources():
    for base, _, files in os.walk(LEAN):
        if ".lake" in base: continue
        for f in files:
            if f.endswith(".lean"): yield os.path.join(base, f)


def import_closure(modules):
    """project-local Lean files reachable from the given modules through `import`"""
    seen, todo = {}, list(modules)
    while todo:
        m = todo.pop()
        path = os.path.join(LEAN, m.replace(".", "/") + ".lean")
        if m in seen or not os.path.exists(path): continue
        seen[m] = path
        for line in open(path):
            mm = re.match(r"\s*(?:public\s+)?import\s+(\S+)", line)
            if mm: todo.append(mm.group(1))
    return sorted(seen.values())


def forbidden_tokens(modules=None):
    hits = []
    for path in (import_closure(modules) if modules else lean_sources()):
        code = strip_comments(open(path).read())
        for k, line in enumerate(code.split("\n"), 1):
            for pat in FORBIDDEN:
                if re.search(pat, line):
                    hits.append("%s:%d: %s" % (os.path.relpath(path, ROOT), k, line.strip()))
    return hits


def exe_root(target):
    """root module of a lean_exe target, read from the lakefile"""
    txt = open(os.path.join(LEAN, "lakefile.toml")).read()
    m = re.search(r'name\s*=\s*"%s"\s*\nroot\s*=\s*"([^"]+)"' % re.escape(target), txt)
    return m.group(1) if m else None


def theorems_of(module_path):
    """fully qualified names of the theorems and the number of examples of a Props file"""
    code = strip_comments(open(module_path).read())
    ns, names, examples = [], [], 0
    for line in code.split("\n"):
        m = re.match(r"\s*namespace\s+(\S+)", line)
        if m: ns.append(m.group(1)); continue
        m = re.match(r"\s*end\s+(\S+)", line)
        if m and ns and ns[-1] == m.group(1): ns.pop(); continue
        m = re.match(r"\s*(?:private\s+|protected\s+)?theorem\s+(\S+)", line)
        if m: names.append(".".join(ns + [m.group(1)]))
        if re.match(r"\s*example\b", line): examples += 1
    return names, examples


def lean_build(targets, prop_module):
    """lake build; returns (ok, log). prop_module like 'DiscretModel.Props.C20'"""
    with Lock("lake"):
        rc, out, dt = sh(["lake", "build"] + targets, cwd=LEAN, timeout=3000)
    return rc == 0, out, dt


def lean_audit(prop_module):
    """#print axioms for every theorem of the Props module; returns (axioms_by_theorem, n_examples, problems)"""
    path = os.path.join(LEAN, prop_module.replace(".", "/") + ".lean")
    names, examples = theorems_of(path)
    audit_dir = os.path.join(OUT, "work", "audit")
    os.makedirs(audit_dir, exist_ok=True)
    audit = os.path.join(audit_dir, prop_module.split(".")[-1] + "_audit.lean")
    with open(audit, "w") as f:
        f.write("import %s\n" % prop_module)
        for n in names: f.write("#print axioms %s\n" % n)
    with Lock("lake"):
        rc, out, _ = sh(["lake", "env", "lean", audit], cwd=LEAN, timeout=1800)
    if rc != 0:
        raise CheckError("axiom audit failed to run:\n" + out[-3000:])
    by_thm, problems = {}, []
    flat = re.sub(r"\s+", " ", out)
    for n in names:
        m = re.search(r"'%s' depends on axioms: \[([^\]]*)\]" % re.escape(n), flat)
        if m:
            ax = [a.strip() for a in m.group(1).split(",") if a.strip()]
        elif re.search(r"'%s' does not depend on any axioms" % re.escape(n), flat):
            ax = []
        else:
            problems.append("no axiom report for " + n); continue
        by_thm[n] = ax
        bad = [a for a in ax if a not in ALLOWED_AXIOMS]
        if bad: problems.append("%s uses axioms %s" % (n, bad))
    return by_thm, examples, problems


def leanchecker(prop_module):
    with Lock("lake"):
        rc, out, dt = sh(["lake", "env", "leanchecker", prop_module], cwd=LEAN, timeout=3000)
    return rc == 0, out, dt


# ----------------------------------------------------------------------------- Rust side

def cargo_build(package):
    """builds the harness binary against /repo's current working tree (path dependency, feature verif)"""
    lock = os.path.join(HARNESS, "Cargo.lock")
    if not os.path.exists(lock):
        shutil.copy(os.path.join(REPO, "Cargo.lock"), lock)
    rc, out, dt = sh(["cargo", "build", "--offline", "-q", "-p", package], cwd=HARNESS, timeout=3400)
    return rc == 0, out, dt, os.path.join(HARNESS, "target", "debug", package)


def model_bin(name):
    return os.path.join(LEAN, ".lake", "build", "bin", name)


# ----------------------------------------------------------------------------- cases

def split_cases(ops_lines, out_lines=None):
    """cases are delimited by lines starting with 'case '. returns list of (ops, outs)"""
    cases, cur_o, cur_r = [], None, None
    for i, l in enumerate(ops_lines):
        if l.startswith("case "):
            if cur_o is not None: cases.append((cur_o, cur_r))
            cur_o, cur_r = [], []
        if cur_o is None: cur_o, cur_r = [], []
        cur_o.append(l)
        if out_lines is not None and i < len(out_lines): cur_r.append(out_lines[i])
    if cur_o: cases.append((cur_o, cur_r))
    return cases


def read_lines(path):
    with open(path, errors="replace") as f:
        return f.read().split("\n")[:-1] if os.path.getsize(path) else []


def run_impl(binary, ops_path, out_path, stats_path=None, timeout=3000, extra=None):
    cmd = [binary, "run", "--ops", ops_path, "--out", out_path]
    if stats_path: cmd += ["--stats", stats_path]
    if os.path.exists(out_path + ".oracle"): os.remove(out_path + ".oracle")
    if extra: cmd += extra
    rc, out, dt = sh(cmd, timeout=timeout)
    if rc != 0:
        raise CheckError("harness run failed (%d): %s\n%s" % (rc, " ".join(cmd), out[-3000:]))
    return dt


def run_model(binary, ops_path, out_path, timeout=3000):
    t = time.time()
    with open(ops_path) as fi, open(out_path, "w") as fo:
        p = subprocess.run([binary], stdin=fi, stdout=fo, stderr=subprocess.PIPE, timeout=timeout)
    if p.returncode != 0:
        raise CheckError("model driver failed: " + p.stderr.decode(errors="replace")[-2000:])
    return time.time() - t


def first_diff(a, b):
    n = min(len(a), len(b))
    for i in range(n):
        if a[i] != b[i]: return i
    return n if len(a) != len(b) else None


def ddmin(items, failing, keep_first=1):
    """delta debugging over a list (first `keep_first` items always kept); failing(list)->bool"""
    head, body = items[:keep_first], items[keep_first:]
    n = 2
    while len(body) >= 2:
        chunk = max(1, len(body) // n)
        reduced = False
        for i in range(0, len(body), chunk):
            cand = body[:i] + body[i + chunk:]
            if failing(head + cand):
                body, n, reduced = cand, max(n - 1, 2), True
                break
        if not reduced:
            if chunk == 1: break
            n = min(len(body), n * 2)
    if len(body) == 1 and failing(head):
        body = []
    return head + body


def save_replay(prop, lines, suffix="ops"):
    os.makedirs(os.path.join(OUT, "replays"), exist_ok=True)
    text = "\n".join(lines) + "\n"
    h = hashlib.sha1(text.encode()).hexdigest()[:10]
    path = os.path.join(OUT, "replays", "%s-%s.%s" % (prop, h, suffix))
    with open(path, "w") as f: f.write(text)
    return path


# ----------------------------------------------------------------------------- findings / verdict

def known_findings(prop):
    path = os.path.join(ROOT, "KNOWN_FINDINGS.jsonl")
    res = []
    if os.path.exists(path):
        for line in open(path):
            line = line.strip()
            if not line or line.startswith("#") or line.startswith("fixed:"): continue
            e = json.loads(line)
            if e.get("property") == prop: res.append(e)
    return res


class Report:
    """collects what a run covered and what it found, writes evidence, prints the verdict"""

    def __init__(self, prop, tier, seed, level="proof"):
        self.prop, self.tier, self.seed, self.level = prop, tier, seed, level
        self.t0 = time.time()
        self.cov = {"samples": []}
        self.assumptions = []
        self.violations = []      # (replay_path, note, no_failing_input)
        self.known_hits = {}      # signature -> count
        self.notes = []

    def violation(self, replay, note="", no_input=False):
        self.violations.append((replay, note, no_input))

    def known(self, signature):
        self.known_hits[signature] = self.known_hits.get(signature, 0) + 1

    def finish(self):
        wall = time.time() - self.t0
        ev = {"property_id": self.prop, "tier": self.tier, "seed": self.seed, "level": self.level,
              "coverage": self.cov, "assumptions": self.assumptions, "wall_s": round(wall, 2),
              "violations": len(self.violations)}
        if self.notes: ev["coverage"]["notes"] = self.notes
        if self.known_hits: ev["coverage"]["known_findings_reproduced"] = self.known_hits
        os.makedirs(os.path.join(OUT, "evidence"), exist_ok=True)
        with open(os.path.join(OUT, "evidence", self.prop + ".json"), "w") as f:
            json.dump(ev, f, indent=1, sort_keys=True)
        for e in known_findings(self.prop):
            hit = self.known_hits.get(e["signature"], 0)
            print("KNOWN-FINDING: property=%s %s [signature=%s reproduced=%s]" % (
                self.prop, e["text"], e["signature"], "yes" if hit else "no"))
        for replay, note, no_input in self.violations:
            if note: print("# " + note)
            print("VIOLATION property=%s replay=%s%s" % (
                self.prop, replay, " no-failing-input-found" if no_input else ""))
        sys.stdout.flush()
        return 1 if self.violations else 0
