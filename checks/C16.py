"""C16 — concurrent mutations of one row do not lose acknowledged changes."""
import itertools, os
from . import lib
from .engine import Cfg


def kv(line):
    t = line.split()
    return (t[0] if t else ""), dict(x.split("=", 1) for x in t[1:] if "=" in x)


def parse_mut(a):
    m = {"key": int(a["key"]), "sets": [], "room": None, "adds": [], "pet": "keep"}
    for fv in filter(None, a.get("set", "").split(",")):
        f, v = fv.split(":"); m["sets"].append((int(f), int(v)))
    if "room" in a: m["room"] = int(a["room"])
    m["adds"] = [int(x) for x in a.get("add", "").split(",") if x]
    if "pet" in a: m["pet"] = None if a["pet"] == "null" else int(a["pet"])
    return m


def initial():
    return {k: {"room": 1, "vals": {1: 0, 2: 0}, "refs": set()} for k in (1, 2, 3, 4)}


def apply_spec(db, m):
    """the meaning of one mutation run alone and whole (what 'applying the mutations one after another' means)"""
    r = db.get(m["key"])
    if r is None: return
    for f, v in m["sets"]: r["vals"][f] = v
    if m["room"] is not None: r["room"] = m["room"]
    for t in m["adds"]: r["refs"].add((1, t))
    if m["pet"] != "keep":
        if m["pet"] is None:
            r["refs"] = {x for x in r["refs"] if x[0] != 2}
        elif (2, m["pet"]) not in r["refs"]:
            r["refs"] = {x for x in r["refs"] if x[0] != 2} | {(2, m["pet"])}


def freeze(db):
    return tuple((k, r["room"], tuple(sorted(r["vals"].items())), tuple(sorted(r["refs"]))) for k, r in sorted(db.items()))


def parse_state(out):
    _, a = kv("x " + out)
    db = {}
    for r in filter(None, a.get("rows", "").split(",")):
        k, room, _mdate, vals = r.split(":")
        db[int(k)] = {"room": int(room), "vals": {int(x.split("=")[0]): int(x.split("=")[1]) for x in vals.split(";") if x},
                      "refs": set()}
    for e in filter(None, a.get("refs", "").split(",")):
        src, rest = e.split(">"); l, d = rest.split(":")
        db.setdefault(int(src), {"room": 0, "vals": {}, "refs": set()})["refs"].add((int(l), int(d)))
    return db


class C16(Cfg):
    prop = "C16"
    prop_module = "DiscretModel.Props.C16"
    lean_targets = ["dmodel_writer"]
    harness_pkg = "dv-writer"
    model_exe = "dmodel_writer"
    design_ref = "DESIGN.md §6 C16, §4 site 23, App. A.1"
    technique = ("Lean 4 proofs over a model of the three-phase mutation pipeline (read on the reader pool / validate+sign in the authorisation actor / batch write) "
                 "+ exhaustive enumeration of the phase interleavings of 2-3 mutations executed phase by phase on the real code, diffed against the compiled model, "
                 "+ an independent serialisability oracle, + a public-API (mutation_stream) run")
    level_text = ("Theorems (Lean 4; any number of mutations, any schedule — no bound) about a model of the update pipeline in which the new row is the WHOLE row read earlier with the assigned fields overwritten: "
                  "C16_serial_when_reads_follow_writes (= C16_partial): any run accepted by the FIFO stages in which no write happens while another mutation of the same row is pending ends in exactly the serial result, in the order of the writes; "
                  "C16_distinct_rows_serial / _commute: mutations of pairwise different rows are serial under EVERY interleaving and commute; C16_validate_independent; "
                  "C16_two_field_writes_exact: over all schedules of two writes of different fields, the final row is a serial outcome iff the two reads do not both precede the two writes. "
                  "The full statement is FALSE of the code: decide-checked witnesses C16_breaks_lostUpdate, C16_breaks_lostRoomMove, C16_breaks_duplicatedSingleReference, each reproduced on the real code. "
                  "Tie: MutationQuery::execute on the real reader connection, AuthorisationMessage::Mutation to the real authorisation actor, the real batch writer (held, then released: one batch per run of adjacent writes and one batch per write), "
                  "for ALL read/write interleavings of 2-3 mutations of the families different fields / same field / reference add / reference replace / room move / mixes / different rows; final rows and references compared with the model "
                  "and, independently, with the set of serial outcomes; plus pairs of mutations pushed through the public mutation_stream.")
    level_note = ("Validation is executed right before the write(s) it belongs to (it does not read the database: C16_validate_independent, and `validate_mutation` takes no connection), "
                  "so interleavings are enumerated over read and write events; both batchings of adjacent writes are run. Real multi-thread timing is only sampled (mutation_stream run). "
                  "Deletions racing with mutations and insert-only mutations are not part of the enumerated families.")
    trusted_base = [
        "hand-written model lean/DiscretModel/Model/Pipeline.lean of mutation_query.rs (read phase), Node::write / Edge::write|delete (write phase), tied by the correspondence run (dv-writer vs dmodel_writer)",
        "harness/writer/src/c16.rs: phases called directly (reader closure, authorisation actor message, writer thread held by a `Write` message); one instance shared by the cases of a file, four fresh rows per case",
        "SQLite: a reader connection sees exactly the committed transactions (rollback-journal mode: readers and the writer exclude each other at commit; a writer blocked for more than busy_timeout=5 s fails with `database is locked`, i.e. a refused, not a lost, mutation)",
    ]
    assumptions = [
        "the authorisation actor and the writer are FIFO (tokio mpsc): writes happen in the order of the validations",
        "serial outcome = the mutations applied whole, one after another, in some order of the acknowledged ones (python oracle, independent of the Lean model)",
    ]

    def streams(self, tier, seed, work, dv):
        res = []
        path = os.path.join(work, "enum16_%s.ops" % tier)
        lib.sh([dv, "enum16", "--tier", tier, "--out", path], check=True)
        res.append(("all phase interleavings of 2-3 mutations (%s families) + mutation_stream" % tier, path, True))
        n = 200 if tier == "quick" else 3000
        path = os.path.join(work, "random16.ops")
        lib.sh([dv, "gen16", "--seed", str(seed), "--n", str(n), "--out", path], check=True)
        res.append(("random mutations and schedules seed=%d n=%d" % (seed, n), path, False))
        return res

    def nontrivial(self, ops, outs):
        return any(o.startswith("acks=") and "o" in o for o in outs)

    def oracle(self, ops, outs):
        """final rows + references of the case vs the set of serial outcomes of the acknowledged mutations"""
        res = []
        if not ops or "prop=c16" not in ops[0]:
            return res
        muts, acked, final = {}, [], None
        pending, overlap = [], False     # read-not-yet-written mutations; a write happened while another one of the same row was pending
        for op, out in zip(ops[1:], outs[1:]):
            k, a = kv(op)
            if out.startswith("harness-error") or out == "bad-op":
                res.append(("harness-error", "%s -> %s" % (op, out))); return res
            try:
                if k == "mut": muts[int(a["i"])] = parse_mut(a)
                elif k == "w":
                    ids = [int(x) for x in a["i"].split(",")]
                    acks = out.split("=", 1)[1] if out.startswith("acks=") else ""
                    if len(acks) != len(ids):
                        res.append(("malformed", "%s -> %s" % (op, out))); return res
                    acked += [i for i, c in zip(ids, acks) if c == "o"]
                    for i in ids:
                        if i in pending: pending.remove(i)
                        if any(muts[j]["key"] == muts[i]["key"] for j in pending): overlap = True
                elif k == "r":
                    if out != "read ok":
                        res.append(("read-refused", "%s -> %s" % (op, out))); return res
                    pending.append(int(a["i"]))
                elif k == "v" and out != "val ok":
                    res.append(("validation-refused", "%s -> %s" % (op, out))); return res
                elif k == "state": final = parse_state(out)
            except Exception as e:
                res.append(("malformed", "%s -> %s (%s)" % (op, out, e))); return res
        if final is None or not acked:
            return res
        outcomes = set()
        for order in itertools.permutations(acked):
            db = initial()
            for i in order: apply_spec(db, muts[i])
            outcomes.add(freeze(db))
        got = freeze(final)
        if got in outcomes:
            return res
        # classify the violation. The window of the known defect is an OVERLAP (a write while another mutation of the
        # same row has read and not yet written); a non-serial outcome without overlap is something else.
        if not overlap:
            res.append(("non-serialisable-without-overlap",
                        "every read followed the previous write of its row, acknowledged %s, yet the final state %s is none of the %d serial outcomes" % (
                            acked, outs[-1], len(outcomes))))
            return res
        for k, r in final.items():
            if len([x for x in r["refs"] if x[0] == 2]) > 1:
                res.append(("single-reference-duplicated",
                            "row %d ends with %d references in its single-valued field; acknowledged mutations %s; final %s" % (
                                k, len([x for x in r["refs"] if x[0] == 2]), acked, outs[-1])))
                return res
        # an acknowledged assignment that no serial order could have erased is missing:
        # the final value of a field (or the room) is none of the values the acknowledged mutations gave it
        for key, r in final.items():
            on_row = [i for i in acked if muts[i]["key"] == key]
            for f in (1, 2):
                given = {v for i in on_row for g, v in muts[i]["sets"] if g == f}
                if given and r["vals"].get(f) not in given:
                    res.append(("lost-update-whole-row-rewrite",
                                "acknowledged mutations %s assigned field %d of row %d the values %s, yet the final row has %s (%s)" % (
                                    [i for i in on_row if any(g == f for g, _ in muts[i]["sets"])], f, key, sorted(given),
                                    r["vals"].get(f), outs[-1])))
                    return res
            rooms = {muts[i]["room"] for i in on_row if muts[i]["room"] is not None}
            if rooms and r["room"] not in rooms:
                res.append(("lost-update-whole-row-rewrite",
                            "acknowledged mutations moved row %d to room %s, yet the row is in room %s (%s)" % (
                                key, sorted(rooms), r["room"], outs[-1])))
                return res
        # every field value and every reference of the final row was produced by some acknowledged mutation, but
        # not by one serial order: e.g. a `pet: null` planned when there was nothing to remove, written after
        # another mutation had set the reference, together with its own (whole-row) field values
        res.append(("mixed-state-after-overlapping-reads",
                    "acknowledged %s, reads overlapped the writes; final %s is none of the %d serial outcomes" % (acked, outs[-1], len(outcomes))))
        return res


CHECK = C16()
