"""C10 — a room means the same live, after restart, and on a peer that imports it."""
import os
from . import lib
from .engine import Cfg
from .roomlib import kv, entries_of_mut, parse_matrix, same_decisions, self_bit_positions


def cmut_items(a):
    """the `mut` key/value dicts of the items of a `cmut` line"""
    res = []
    for item in a.get("items", "").split(";"):
        p = item.split(".", 2)
        m = {"s": a["s"], "d": a["d"], "r": a["r"]}
        if p[0] == "a":
            m["adm"] = p[1]
        else:
            m["grp"] = p[0]
            m["g%s.%s" % (p[0], p[1])] = p[2]
        res.append(m)
    return res


def reflected(pm, e):
    """entry `e` (the last of its key, no conflicting tie) shows in the decision matrix `pm` at every date >= e.date"""
    if pm is None: return False
    rows = pm[1]
    def bit(key, col, b): return (rows[key][col] >> b) & 1 == 1
    ncols = len(next(iter(rows.values())))
    cols = range(max(e.date, 0), ncols)
    if e.lst == "adm":
        return e.key not in rows or all(bit(e.key, c, 0) == e.payload for c in cols)
    base = 2 + 12 * e.group
    if e.lst.endswith(".ua"):
        return e.key not in rows or all(bit(e.key, c, base + 1) == e.payload for c in cols)
    if e.lst.endswith(".u"):
        # the group's `valid` bit is: enabled user OR enabled user admin; a disabled user entry is checked only
        # when the bit `user admin` is off
        return e.key not in rows or all(bit(e.key, c, base) == e.payload for c in cols if e.payload or not bit(e.key, c, base + 1))
    ms, ma = e.payload
    ms = ms or ma   # a right on all rows includes the own rows
    return all(bit(k, c, base + 2 + 2 * e.key) == ms and bit(k, c, base + 3 + 2 * e.key) == ma for k in rows for c in cols)


class C10(Cfg):
    prop = "C10"
    prop_module = "DiscretModel.Props.C10"
    lean_targets = ["dmodel_room"]
    harness_pkg = "dv-room"
    model_exe = "dmodel_room"
    design_ref = "DESIGN.md §5, §6 C10, App. A.4, A.8"
    technique = ("Lean 4 proofs over a literal model of the room history lists and of the three construction paths "
                 "(local mutation, reload at start-up, import of an exported definition) + correspondence run of the compiled "
                 "model against real GraphDatabaseService instances (mutate, stop/start on the same folder, export/import "
                 "between instances) + an independent oracle on the implementation's decision matrices")
    level_text = ("Theorems (Lean 4, histories of any length): the per-key date-ordering invariant is preserved by every successful add; "
                  "lastAt = last inserted among the greatest date <= d; past stability; decisions depend only on per-key subsequences; "
                  "two well-formed rooms holding the same entries in ANY insertion order decide the same whenever equal (key,date) means equal payload; "
                  "every construction path of the model (validate_room_mutation, load_json after LOAD_QUERY, RoomNode::parse after RoomNode::read, "
                  "prepare_room_with_history) installs a room that agrees with the stored rows, hence all paths give the same decisions; "
                  "with ascending replay (Defects.none) reload of any stored definition succeeds; "
                  "SUCCESS of the import by an instance that never saw the room (C10_import_succeeds): for every history of accepted local room mutations whose dates move forward "
                  "(any callers, any number of rooms), with harmless ties, the export is accepted by any live instance that does not hold the room and means the same there — for the code "
                  "once the group-creation rule is repaired (switch groupCreationUnchecked; the caller of an accepted mutation of an existing room is admin before and after it, a creator is admin "
                  "of what it creates or creates an empty room; past stability of isAdmin); the two guards are exact (witnesses C10_breaks_authorDisabledSameDate, C10_breaks_sameDateEntries). "
                  "Each deviation found is a switch with a decide-checked witness: newest-first replay (#4), right normalisation skipped on reload (#5), rooms "
                  "without group/admin dropped on reload — all three FIXED in /repo since (f7a29ff, be6bedc, ee57a96; switches off in Defects.asImplemented, replays "
                  "kept as regression cases) — and, still open: the new-group user rule (#33), equal-date conflicting entries, a group created by a non-admin, "
                  "an older entry brought by a concurrent edit, an entry whose author another instance disabled from an earlier date (kept by the merge, refused by every later importer); the guarded statement (one date per key and list, normalised rights, complete room) is proved for any switch values. "
                  "The model is tied to /repo by running both on the same generated histories and comparing every verdict and every decision matrix; one history in five "
                  "sends 2..8 updates of one room WITHOUT awaiting in between (one task each; distinct (list,key) pairs, the caller's own status untouched, so verdicts and result do not "
                  "depend on the order the service handles them in and the model folds them in item order), then probes live, after restart and on importers; the oracle also asks that "
                  "every acknowledged overlapping update is reflected by the live room.")
    level_note = ("Trusted: Lean kernel (+propext, Classical.choice, Quot.sound), the hand-written model lean/DiscretModel/Model/{Room,RoomBuild}.lean and "
                  "its correspondence harness. Modelled and exercised: room.rs, validate_room_mutation, load_json/LOAD_QUERY, RoomNode::read/parse, "
                  "prepare_new_room, prepare_room_with_history (honest candidates). Not covered: hostile candidates (C07), the order SQLite returns "
                  "equal-date rows in (histories whose outcome depends on it are excluded from the run and shown by a witness theorem).")
    trusted_base = [
        "hand-written models lean/DiscretModel/Model/Room.lean and RoomBuild.lean, tied by the correspondence run (dv-room vs dmodel_room)",
        "harness/room (drives real GraphDatabaseService instances; reads the in-memory room through the add-only hook AuthorisationMessage::VerifGetRoom)",
        "SQLite returns equal-date rows of one list in uid order (random): generated histories never make the outcome depend on it",
    ]
    assumptions = [
        "candidates are honest exports of another instance (signature and consistency checks always pass)",
        "no two entries of one list with the same key and date carry different payloads (guard TiesHarmless of the theorems; a witness shows it is needed)",
    ]

    def streams(self, tier, seed, work, dv):
        n = 120 if tier == "quick" else 2500
        path = os.path.join(work, "histories.ops")
        cmd = [dv, "gen", "--prop", "C10", "--seed", str(seed), "--n", str(n), "--out", path]
        lib.sh(cmd, check=True)
        res = [("histories seed=%d n=%d" % (seed, n), path, False)]
        n2 = 30 if tier == "quick" else 800
        path2 = os.path.join(work, "long.ops")
        lib.sh([dv, "gen", "--prop", "C10", "--seed", str(seed + 1000003), "--n", str(n2), "--out", path2, "--long"], check=True)
        res.append(("long histories seed=%d n=%d" % (seed + 1000003, n2), path2, False))
        return res

    def nontrivial(self, ops, outs):
        return any(l.startswith("mut ") or l.startswith("cmut ") for l in ops) and \
            any("ok" in o.split(",") and (l.startswith("mut ") or l.startswith("cmut ")) for l, o in zip(ops, outs)) and \
            any(o.startswith("m ") for o in outs)

    # ------------------------------------------------------------------ oracle
    def oracle(self, ops, outs):
        """Independent of the model. Over the observations of one case:
        (1) a restart on data the instance wrote itself succeeds;
        (2) any two decision matrices observed (on any instance, at any time) while the observed instances
            held the same set of accepted room mutations are equal — live, reloaded, imported by a fresh
            instance, imported on top of an earlier version, reloaded by the importer;
        (3) an export of an instance is accepted by every instance that holds nothing or an earlier version;
        (4) every acknowledged update of a batch of overlapping updates (`cmut`: sent without awaiting in between)
            is reflected by the live room observed right after it."""
        res = []
        version = {}          # site -> frozenset of accepted mutation indices held
        entries = {}          # mutation index -> [Entry]
        dead = set()
        seen = {}             # frozenset(version) -> (matrix, how, line)
        last_path = {}        # site -> how its in-memory room was last built
        groups_known = set()
        reloaded = set()      # sites whose in-memory room went through a reload at some point
        pending = {}          # site -> entries acknowledged by the last `cmut`, not yet checked against a live observation

        def held(site):
            return version.get(site, frozenset())

        def history(vs):
            return [e for i in sorted(vs) for e in entries[i]]

        def multi_date(vs):
            d = {}
            for e in history(vs):
                d.setdefault((e.lst, e.key), set()).add(e.date)
            return any(len(v) > 1 for v in d.values())

        def conflicting_tie(vs):
            d = {}
            for e in history(vs):
                d.setdefault((e.lst, e.key, e.date), set()).add(e.payload)
            return any(len(v) > 1 for v in d.values())

        def raw_right(vs):
            return any(e.lst.endswith(".r") and e.payload == (False, True) for e in history(vs))

        def incomplete(vs):
            h = history(vs)
            has_admin = any(e.lst == "adm" for e in h)
            has_group = any(i in group_muts for i in vs)
            return not has_admin or not has_group

        group_muts = set()
        for i, (op, out) in enumerate(zip(ops, outs)):
            k, a = kv(op)
            if k in ("mut", "cmut", "restart", "sync"):
                for s2 in ([int(a["s"])] if "s" in a else [int(a["to"])] if "to" in a else []):
                    pending.pop(s2, None)
            if k == "cmut":
                s = int(a["s"])
                if out in ("bad-op", "err:dead") or s in dead: continue
                items = cmut_items(a)
                verdicts = out.split(",")
                if len(verdicts) != len(items):
                    res.append(("concurrent-updates-wrong-answer", "line %d: %d updates sent, answer %r" % (i, len(items), out)))
                    continue
                acked = []
                for j, (m, v) in enumerate(zip(items, verdicts)):
                    if v == "ok":
                        idx = i + (j + 1) / 16.0
                        entries[idx] = entries_of_mut(m, idx)
                        if m.get("grp"): group_muts.add(idx)
                        version[s] = held(s) | {idx}
                        acked += entries[idx]
                if acked:
                    last_path[s] = "live"
                    pending[s] = (i, acked)
            elif k == "mut":
                s = int(a["s"])
                if out == "ok":
                    entries[i] = entries_of_mut(a, i)
                    if a.get("grp"):
                        group_muts.add(i)
                        for g in a["grp"].split(","):
                            if g: groups_known.add(int(g))
                    version[s] = held(s) | {i}
                    last_path[s] = "live"
            elif k == "restart":
                s = int(a["s"])
                if out == "bad-op" or s in dead: continue
                if out != "ok":
                    dead.add(s)
                    if out == "err:date" and multi_date(held(s)):
                        res.append(("restart-fails-newest-first-replay",
                                    "site %d cannot be restarted on its own data (%s): some key has entries at two dates" % (s, out)))
                    else:
                        res.append(("restart-fails", "site %d cannot be restarted on its own data: %s" % (s, out)))
                else:
                    last_path[s] = "reload"
                    reloaded.add(s)
            elif k == "sync":
                fr, to = int(a["from"]), int(a["to"])
                if fr in dead or to in dead or out in ("bad-op", "err:no-room", "err:dead"): continue
                src, dst = held(fr), held(to)
                if out == "ok":
                    version[to] = dst | src
                    last_path[to] = "import-fresh" if not dst else "import-merge"
                elif dst <= src:
                    # the receiver holds nothing or an earlier version: an honest export must be accepted
                    new_groups = set()
                    for i2 in src - dst:
                        for e in entries[i2]:
                            if e.group is not None and not any(e2.group == e.group for j in dst for e2 in entries[j]):
                                new_groups.add(e.group)
                    rule33 = False
                    if dst and out == "err:invalid-node":
                        for g in new_groups:
                            h = [e for e in history(src) if e.group == g]
                            uas = {}
                            for e in h:
                                if e.lst.endswith(".ua"): uas.setdefault(e.key, []).append(e)
                            for e in h:
                                if e.lst.endswith(".u"):
                                    best = None   # the author's last user-admin entry at the user's date
                                    for x in uas.get(e.author, []):
                                        if x.date <= e.date and (best is None or x.date >= best.date): best = x
                                    if not (best and best.payload): rule33 = True
                    # a group created by a key that is not admin of the room (possible at creation: a room without
                    # admin entries): the live path accepts it, every importer refuses the group row
                    def group_creator_not_admin():
                        seen_groups, admins = set(), []
                        for i2 in sorted(src):
                            for e in entries[i2]:
                                if e.lst == "adm": admins.append(e)
                        for i2 in sorted(src):
                            _, a2 = kv(ops[int(i2)])
                            for g in [x for x in a2.get("grp", "").split(",") if x]:
                                if g in seen_groups: continue
                                seen_groups.add(g)
                                author, d2 = entries[i2][0].author if entries[i2] else None, int(a2["d"])
                                if author is None:
                                    from .roomlib import ident_of_site
                                    author = ident_of_site(int(a2["s"]))
                                best = None
                                for e in admins:
                                    if e.key == author and e.date <= d2 and (best is None or e.date >= best.date): best = e
                                if not (best and best.payload): return True
                        return False
                    # concurrent edits: the candidate brings, for a key the receiver already has a LATER entry of, an
                    # entry with an earlier date (admins / user admins are appended to the receiver's live room)
                    def older_entry_for_known_key():
                        have = {}
                        for j in dst:
                            for e in entries[j]:
                                k2 = (e.lst, e.key)
                                have[k2] = max(have.get(k2, e.date), e.date)
                        return any((e.lst, e.key) in have and e.date < have[(e.lst, e.key)]
                                   for j in src - dst for e in entries[j])
                    # concurrent edits: an entry whose author, in the MERGED history, is no longer entitled at the entry's
                    # date (another instance disabled the author from an earlier date on; the holder keeps the entry)
                    def author_disabled_in_merged_history():
                        h = history(src)
                        for e in h:
                            best = None   # the author's last admin entry at the date it acted
                            for x in h:
                                if x.lst == "adm" and x.key == e.author and x.date <= e.date and (best is None or x.date >= best.date): best = x
                            # every mutation also re-signs the room row / group rows it goes through
                            if best is not None and not best.payload and best.author != e.author: return True
                        return False
                    if out == "err:invalid-node" and author_disabled_in_merged_history():
                        res.append(("import-fails-author-disabled-by-concurrent-edit",
                                    "export of site %d refused by site %d (%s, receiver %s): the merged history holds an entry whose author was disabled, by an edit made on another instance, from a date before the entry's"
                                    % (fr, to, out, "fresh" if not dst else "holds an earlier version")))
                    elif out == "err:date" and dst and older_entry_for_known_key():
                        res.append(("import-merge-older-entry-refused",
                                    "export of site %d refused by site %d which holds an earlier version (%s): the candidate carries an entry older than the last entry the receiver holds for the same key (concurrent edits)"
                                    % (fr, to, out)))
                    elif out == "err:invalid-node" and not dst and group_creator_not_admin():
                        res.append(("import-fails-group-created-by-non-admin",
                                    "export of site %d refused by the fresh site %d (%s): a group of the room was created by a key that is not admin of the room"
                                    % (fr, to, out)))
                    elif out == "err:date" and multi_date(src):
                        res.append(("import-fails-newest-first-replay",
                                    "export of site %d refused by site %d (%s, receiver %s): some key has entries at two dates"
                                    % (fr, to, out, "fresh" if not dst else "holds an earlier version")))
                    elif rule33:
                        res.append(("import-new-group-users-rule",
                                    "export of site %d refused by site %d which holds an earlier version (%s): a new group has users added by an admin who is not user admin of it"
                                    % (fr, to, out)))
                    else:
                        res.append(("import-fails", "export of site %d refused by site %d (%s)" % (fr, to, out)))
            elif k == "obs":
                s = int(a["s"])
                if s in dead or out in ("bad-op", "err:dead"): continue
                vs = held(s)
                if not vs: continue
                if s in pending:
                    line, acked = pending.pop(s)
                    pm = parse_matrix(out)
                    if not conflicting_tie(vs):
                        missing = [e for e in acked if not reflected(pm, e)]
                        if missing:
                            res.append(("acknowledged-update-not-reflected-live",
                                        "site %d: %d of the %d entries acknowledged by the overlapping updates of line %d are not in the live room observed at line %d: %s"
                                        % (s, len(missing), len(acked), line, i,
                                           ", ".join("%s[%s]@%d=%s" % (e.lst, e.key, e.date, e.payload) for e in missing[:4]))))
                how = last_path.get(s, "?")
                if s in reloaded and how != "reload": how += "-after-reload"
                if vs in seen:
                    ref, ref_how, ref_line = seen[vs]
                    if not same_decisions(ref, out):
                        sig = "paths-disagree"
                        pm, po = parse_matrix(ref), parse_matrix(out)
                        via_reload = "reload" in how or "reload" in ref_how
                        if conflicting_tie(vs):
                            sig = "same-date-conflicting-entries"
                        elif via_reload and "none" in (ref, out) and incomplete(vs):
                            sig = "reload-drops-room-without-group-or-admin"
                        elif via_reload and pm and po and raw_right(vs):
                            selfbits = self_bit_positions()
                            diff_ok = True
                            for key in pm[1]:
                                for x, y in zip(pm[1][key], po[1].get(key, [])):
                                    d = x ^ y
                                    b = 0
                                    while d:
                                        if d & 1 and b not in selfbits: diff_ok = False
                                        d >>= 1; b += 1
                            if diff_ok: sig = "reload-right-not-normalised"
                        res.append((sig, "decisions differ between path '%s' (line %d) and path '%s' (line %d) for the same accepted mutations %s"
                                    % (ref_how, ref_line, how, i, sorted(vs))))
                else:
                    seen[vs] = (out, how, i)
        # one report per signature per case is enough
        uniq, out_res = set(), []
        for sig, d in res:
            if sig not in uniq:
                uniq.add(sig); out_res.append((sig, d))
        return out_res


CHECK = C10()
