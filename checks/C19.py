"""C19 — connections are trusted only after key proof; invitations are single-use."""
import os
from . import lib, engine
from .engine import Cfg


def parse(line):
    t = line.split()
    return (t[0] if t else ""), dict(x.split("=", 1) for x in t[1:] if "=" in x)


class C19(Cfg):
    prop = "C19"
    prop_module = "DiscretModel.Props.C19"
    lean_targets = ["dmodel_serve"]
    harness_pkg = "dv-serve"
    model_exe = "dmodel_serve"
    design_ref = "DESIGN.md §6 C19 (+ C08 for the composition), §4 site 12, App. A.11"
    technique = ("Lean 4 proofs over a model of initialise_connection and of the PeerManager token table + decide-checked witness "
                 "+ correspondence run of the real initialise_connection against a scripted remote, the real PeerManager table and the real MeetingSecret")
    level_text = ("Theorems (Lean 4, every reply of the remote side, every token type, every table): a connection is bound to key k only if the remote presented a valid peer row of k and a signature of THIS connection's challenge under k, "
                  "with k the expected key for an allowed peer and the invitation's signature valid under k for an accepted invitation; any outcome other than Ok(true) binds nothing and sends nothing (caller disconnects); "
                  "an answer recorded on another connection (signature over a different challenge) is rejected; the valid key of another allowed peer is refused; an invitation for another application is refused and leaves the table unchanged; "
                  "the meeting token is symmetric (commutativity of the model key agreement); once invite_accepted has run, no token and no key reaches the invitation any more (single use), and it stays unreachable through ANY later history of the table (invitations created / accepted / refused / consumed, restarts) that does not issue the same id again (C19_invite_stays_consumed); over any history the table only ever holds accepted invitations of this application (C19_table_holds_own_application_only). "
                  "Composition with the serving side (C08's model, any description of the serving code): the key requests are served under is exactly the key bound by the handshake, whatever happens on the connection afterwards (C19_serving_key_is_proven_key); after a handshake that does not return Ok(true) every request of every kind gets silence, a refusal or the public identity proof, for ever (C19_failed_proof_is_served_nothing); any room list, fingerprint or data answer implies that the remote presented a valid peer row and a signature of this connection's challenge under the serving key, which is the expected key / the invitation's signer (C19_served_only_after_proof). "
                  "The single-use statement was FALSE of the code as found (the consumed invitation was removed under the new peer's token and stayed usable until restart: confirmed on the real PeerManager), fixed in /repo by 7ec64bc; "
                  "the defect is kept as a decide-checked regression witness and a corpus case. "
                  "'Tokens differ between distinct pairs' is NOT a theorem (56-bit truncation of a hash): the check samples real tokens and reports repeats. "
                  "Tie: real LocalPeerService::initialise_connection, followed on the SAME key / readiness cells by a real InboundQueryService loop asked for the room list, the hardware fingerprint and the private room (what is served after each handshake outcome), with a scripted remote (honest, wrong key, replayed answer, valid key of another allowed peer, a self-signed peer row carrying the expected peer's row id under another key and its sibling, malformed peer rows, error / closed / undecodable answers) x every token type x local key (exhaustive product) and random sequences; "
                  "real PeerManager (create_invite, accept_invite incl. arbitrary bytes and foreign applications, get_token_type, invite_accepted, and RESTART = a new PeerManager built from the same database) for invitation reuse patterns; real MeetingSecret::token both ways.")
    level_note = ("Trusted: Lean kernel (+propext, Classical.choice, Quot.sound), idealised signatures and key agreement (no truncation), the hand-written model, the correspondence harness. "
                  "Modelled and exercised: initialise_connection, IdentityAnswer::verify, Peer::validate (as a boolean), the allowed_token table, MeetingSecret::token. "
                  "Not covered: answer after the 10 s timeout and duplicate connections racing (timing), the QUIC/TLS layer, announce parsing, restart (the table is rebuilt from the database, where the consumed invitation is deleted).")
    trusted_base = [
        "idealised cryptography: signature = (signer, message); key agreement = exponentiation; token hash injective (the 56-bit truncation is not modelled)",
        "hand-written model lean/DiscretModel/Model/Handshake.lean tied by the correspondence run (dv-serve vs dmodel_serve)",
        "harness/serve/src/c19.rs: scripted remote side over in-memory channels; real PeerManager on a real database with a local UDP endpoint that never connects; invitation token derived with the protocol constant \"P\" (peer_manager.rs DERIVE_STRING)",
    ]
    assumptions = [
        "challenges are fresh per connection (random32)",
        "Peer::validate is treated as a boolean property of the presented row (its signature check is C06's)",
        "timing behaviours (late answer, racing duplicate connections) are not exercised",
    ]

    def run(self, tier, seed):
        # the model driver `dmodel_serve` is shared with C08 and imports the request table regenerated by T1:
        # keep that table current so that this check builds against the source as it is now
        from translators import serve_table
        with lib.Lock("lake"):
            serve_table.generate(serve_table.repo_of_harness(lib.HARNESS),
                                 os.path.join(lib.LEAN, "DiscretModel", "Gen", "ServeTable.lean"))
        return engine.run(self, tier, seed)

    def streams(self, tier, seed, work, dv):
        p = os.path.join(work, "product19.ops")
        lib.sh([dv, "enum19", "--out", p], check=True)
        # every case starts real services (database, peer manager, 30 s remote tasks) that live as long as the harness
        # process: one process per chunk of 500 cases (a single run of 5000 cases exhausted threads / file descriptors
        # after about 2200 cases — a limit of the harness, found by the thorough tier)
        res = [("product token type(8) x remote behaviour(16) x local key(2) + invitation reuse / restart patterns", p, True)]
        chunks = [(seed, 50)] if tier == "quick" else [(seed * 1000 + k, 500) for k in range(10)]
        for sd, n in chunks:
            q = os.path.join(work, "random19_%d.ops" % sd)
            lib.sh([dv, "gen19", "--seed", str(sd), "--n", str(n), "--out", q], check=True)
            res.append(("random seed=%d n=%d" % (sd, n), q, False))
        return res

    def nontrivial(self, ops, outs):
        return any(o.startswith("res=true") or o.startswith("owned") or o.startswith("allowed") or o.startswith("invite ") for o in outs)

    def oracle(self, ops, outs):
        res = []
        _, head = parse(ops[0])
        app = head.get("app", "1")
        consumed = set()
        foreign = set()      # invitations naming another application that were submitted to accept_invite
        for op, out in zip(ops[1:], outs[1:]):
            kind, kv = parse(op)
            if out == "bad-op" or out.startswith("err:no-peer-manager") or out in ("err:create", "err:accepted", "err:other"):
                res.append(("harness-error", "%s -> %s" % (op[:70], out))); continue
            if kind == "hs":
                o = dict(x.split("=", 1) for x in out.split() if "=" in x)
                bound = o.get("key", "-")
                honest = kv.get("remote") == "honest"
                k = kv.get("key")
                tt = kv.get("tt")
                entitled = honest and (tt == "owned" or (tt == "allowed" and kv.get("exp") == k)
                                       or (tt == "invite" and kv.get("signer") == k and kv.get("signapp") == kv.get("app")))
                if bound != "-" and not (entitled and bound == k):
                    sig = "replayed-answer-accepted" if kv.get("remote") == "replay" else "bound-without-proof"
                    res.append((sig, "connection bound to key %s: token %s, remote %s key=%s" % (bound, tt, kv.get("remote"), k)))
                if o.get("res") != "true" and (bound != "-" or o.get("events") != "-" or o.get("msgs") != "-" or o.get("ready") != "1"):
                    res.append(("failed-proof-leaves-trace", out))
                if o.get("res") == "true" and bound == "-":
                    res.append(("success-without-key", out))
                if "accepted:" in o.get("msgs", "") and tt == "allowed":
                    res.append(("invite-consumed-without-invite", out))
                # the serving side of the same connection (a real InboundQueryService sharing the key / readiness cells)
                if "serve" in o:
                    sv = (o["serve"].split("|") + ["", "", ""])[:3]
                    if o["serve"].startswith("err:"):
                        res.append(("harness-error", "%s -> %s" % (op[:70], out)))
                    elif bound == "-" and sv != ["silent", "silent", "refused"]:
                        res.append(("served-without-proof", "after a handshake that bound no key the serving side answered %s" % o["serve"]))
                    else:
                        if sv[0].startswith("rooms") and o.get("ready") != "1":
                            res.append(("room-list-before-ready", out))
                        if sv[1] == "fingerprint" and bound != "1":
                            res.append(("fingerprint-leak", "hardware fingerprint sent to key %s" % bound))
                        if (sv[0].startswith("rooms:") or sv[2].startswith("data")) and bound != "1":
                            res.append(("private-room-served", "the instance's private room served to key %s: %s" % (bound, o["serve"])))
            elif kind == "pm-accepted":
                n = kv.get("inv")
                if out == "ok" and n in foreign:
                    res.append(("foreign-application-invite-usable", "invitation %s made for another application was consumed" % n))
                if out == "ok":
                    if n in consumed:
                        res.append(("invite-reusable-after-acceptance", "invitation %s consumed a second time (peer %s)" % (n, kv.get("peer"))))
                    consumed.add(n)
            elif kind == "pm-lookup":
                tok = kv.get("tok", "")
                if tok.startswith("inv:") and tok[4:] in foreign and out != "none":
                    res.append(("foreign-application-invite-usable",
                                "invitation %s made for another application resolves to `%s` (stored by the refused accept_invite and reloaded?)" % (tok[4:], out)))
                if tok.startswith("inv:") and tok[4:] in consumed and (out.startswith("owned") or out.startswith("invite")):
                    res.append(("invite-reusable-after-acceptance", "invitation %s still reachable through its token after it was accepted" % tok[4:]))
            elif kind == "pm-accept":
                if kv.get("src") == "forged" and kv.get("app") != app: foreign.add(kv.get("id"))
                if out == "ok" and (kv.get("src") == "bytes" or kv.get("app") != app):
                    res.append(("foreign-invite-accepted", "%s accepted" % op[:80]))
            elif kind == "tok-sym" and out != "sym 1":
                res.append(("token-asymmetric", op))
        return res


CHECK = C19()
