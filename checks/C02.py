"""C02 — rows received from peers are stored only if their author had the right."""
import os
from . import lib
from .engine import Cfg

SELF, ALL = "self", "all"
KNOWN_ENT = set([1, 2, 3]) | set(range(100, 109))
DEFINITION_ENT = set(range(100, 104))     # sys.Room, sys.Authorisation, sys.UserAuth, sys.EntityRight: never data
DEF_MSG = "%s of a room-definition entity (%d) accepted as synchronised data"
CONFORM = {"ok": True, "extra": True, "none": False, "null": False, "wrongtype": False, "missing": False,
           "big": True, "notobj": False, "badjson": False}
CODE = {"ok": 0, "none": 1, "extra": 2, "null": 3, "wrongtype": 4, "missing": 5, "big": 6, "notobj": 7, "badjson": 8, "ukey": 9}


def tag_of(a):
    code = CODE.get(a["js"], 99)
    if code == 1: return 1000
    if code == 9: return 1000000 + 2 * (int(a["v"]) % 8) + 1
    return int(a["v"]) + 1000 * code


def conforms(a):
    if a["js"] == "ukey": return int(a["e"]) == 102
    return CONFORM.get(a["js"], False)


def kv(line):
    t = line.split()
    return (t[0] if t else ""), dict(x.split("=", 1) for x in t[1:] if "=" in x)


def rows(s):
    """'a:b:c,d:e:f' -> set of tuples of ints ('-' = None)"""
    res = set()
    if not s: return res
    for r in s.split(","):
        res.add(tuple(None if x == "-" else int(x) for x in r.split(":")))
    return res


def parse_sync(out):
    t = out.split()
    if t and t[0] == "rsync" and len(t) == 6:
        # through the real synchronise_day: no reject lists, no stage of the error
        t = ["sync", t[1] if t[1] == "res=ok" else "res=abandoned", "nrej=", "erej="] + t[2:]
    if len(t) != 8 or t[0] != "sync": return None
    d = dict(x.split("=", 1) for x in t[1:])
    try:
        return {"res": d["res"], "nrej": [int(x) for x in d["nrej"].split(",") if x],
                "erej": [int(x) for x in d["erej"].split(",") if x],
                "N": rows(d["N"]), "E": rows(d["E"]), "ND": rows(d["ND"]), "ED": rows(d["ED"])}
    except (KeyError, ValueError):
        return None


def block_ddmin(items, failing, keep_first=1, budget=140):
    """structure-aware, budgeted shrinking: first whole blocks (a room definition up to its `install`,
    a batch up to its `sync`), last block first, then single lines, last line first. Every test is
    one run of the harness on a fresh instance, hence the budget."""
    head, body = items[:keep_first], items[keep_first:]
    tests = [0]

    def still(cand):
        if tests[0] >= budget: return False
        tests[0] += 1
        return failing(head + cand)

    blocks, cur = [], []
    for l in body:
        cur.append(l)
        if l.startswith("install ") or l.startswith("sync "):
            blocks.append(cur); cur = []
    if cur: blocks.append(cur)
    i = len(blocks) - 1
    while i >= 0 and len(blocks) > 1:
        cand = blocks[:i] + blocks[i + 1:]
        if still([l for b in cand for l in b]): blocks = cand
        i -= 1
    body = [l for b in blocks for l in b]
    i = len(body) - 1
    while i >= 0:
        cand = body[:i] + body[i + 1:]
        if cand and still(cand): body = cand
        i -= 1
    return head + body


class RoomSpec:
    """the room definition as an event list; decisions computed from the events alone:
    the entry in force for a key (an entity) at date d is the one with the greatest date <= d,
    the later-listed one among equal dates."""

    def __init__(self):
        self.admins = []          # (key, date, enabled)
        self.groups = {}          # gid -> {"users": [], "uadmins": [], "rights": [(ent, date, ms, ma)]}

    @staticmethod
    def in_force(entries, sel, d):
        best = None
        for i, e in enumerate(entries):
            if e[0] == sel and e[1] <= d and (best is None or e[1] >= best[1]): best = e
        return best

    def enabled(self, entries, k, d):
        e = self.in_force(entries, k, d)
        return bool(e and e[2])

    def can(self, k, ent, d, right):
        adm = self.enabled(self.admins, k, d)
        for g in self.groups.values():
            if not (adm or self.enabled(g["users"], k, d) or self.enabled(g["uadmins"], k, d)): continue
            r = self.in_force(g["rights"], ent, d) or self.in_force(g["rights"], 0, d)
            if not r: continue
            ms, ma = (r[2] or r[3]), r[3]
            if (ma if right == ALL else ms): return True
        return False


class C02(Cfg):
    prop = "C02"
    prop_module = "DiscretModel.Props.C02"
    lean_targets = ["dmodel_ingest"]
    harness_pkg = "dv-ingest"
    model_exe = "dmodel_ingest"
    design_ref = "DESIGN.md §6 C02, App. A.5"
    technique = ("Lean 4 theorems over a literal model of the peer ingestion path (synchronise_day: filter_existing, add_nodes, "
                 "validate_node, add_edges, delete_nodes, delete_edges) + correspondence run against the real GraphDatabaseService and "
                 "SignatureVerificationService with really signed rows + independent per-row oracle")
    level_text = ("Theorems (Lean 4, any room history, any batch, no size bound) about a literal model of the ingestion path: every difference "
                  "between the tables before and after a synchronised day is justified by a received record that is validly signed, names the synchronised "
                  "room, conforms, and whose author holds the needed right at the record's own date (all-rows right when replacing/deleting another author's row, "
                  "both rooms on a move); verdicts are independent of the relaying peer and of the rest of the batch (induction over the batch); a rejected record "
                  "leaves the state unchanged. The full statement is proved for the intended checks (Defects.none) and, kind by kind, for every setting of the switches in "
                  "which the checks of that kind are in place (C02_rows_when: rows and node deletion records; C02_references_when: references and their deletion records); "
                  "for the code as written (Defects.asImplemented) it is proved at full strength under a guard that is a function of the switches still on (dayGuardD: a repaired "
                  "switch contributes nothing) and refuted without it by decide-checked witnesses about explicit switch values (foreign source row of a reference, replaced reference, "
                  "entity change, room-less row overwritten, deletion record of another room / entity, absent JSON). "
                  "The model is tied to /repo by running the real services and the compiled model on the same structured adversarial op files and diffing "
                  "reject lists and the canonical content of _node, _edge and both deletion logs.")
    level_note = ("Trusted: Lean kernel (+propext, Classical.choice, Quot.sound), the hand-written model and harness, SQLite, Ed25519/blake3 (signatures are real in the run, "
                  "symbolic in the model). Modelled and exercised: node.rs filter_existing/write, graph_database.rs add_nodes/add_edges/delete_*, "
                  "authorisation_service.rs validate_node/AddEdges/validate_*_deletions, edge.rs/node.rs deletion entries, signature_verification_service.rs. "
                  "Not covered: batching over several network chunks, full-text index, daily-log marks (C09).")
    trusted_base = [
        "hand-written model lean/DiscretModel/Model/Ingest.lean (+ Model/Room.lean, Model/RoomNode.lean for the room set-up), tied by the correspondence run (dv-ingest vs dmodel_ingest)",
        "harness/ingest: builds and signs rows with harness-held Ed25519 keys; two thirds of the days call the real services "
        "(SignatureVerificationService, filter_existing_node, add_nodes, add_edges, delete_nodes, delete_edges) in the order of synchronise_day, "
        "one third run the real LocalPeerService::synchronise_day (hook verif_synchronise_day) with the harness answering its queries as the remote peer",
        "idealised signatures in the model: `sigOk` is the verdict of the real verify(); an unforgeable signature is assumed, not proved",
    ]
    assumptions = [
        "row ids are unique in _node (invariant of the modelled pipeline, proved as NodupIds preservation; local mutations create fresh uids)",
        "one network chunk per query (the 2048-row batching of synchronise_day is not modelled)",
        "the room definitions are installed through add_room_node before the rows arrive; ingestion never changes a room definition (proved)",
    ]

    def streams(self, tier, seed, work, dv):
        n = 300 if tier == "quick" else 4000
        path = os.path.join(work, "random.ops")
        lib.sh([dv, "gen", "--prop", "C02", "--seed", str(seed), "--n", str(n), "--out", path], check=True)
        return [("random seed=%d n=%d" % (seed, n), path, False)]

    def run(self, tier, seed):
        """the standard pipeline with the structure-aware shrinker (a harness run costs an instance start)"""
        from . import engine
        saved = lib.ddmin
        lib.ddmin = block_ddmin
        try:
            return engine.run(self, tier, seed)
        finally:
            lib.ddmin = saved

    def nontrivial(self, ops, outs):
        prev = None
        for o in outs:
            if o.startswith("sync res=ok") or o.startswith("rsync res=ok"):
                p = parse_sync(o)
                if p and prev is not None and (p["N"], p["E"], p["ND"], p["ED"]) != prev: return True
                if p: prev = (p["N"], p["E"], p["ND"], p["ED"])
            elif o.startswith("sync "):
                p = parse_sync(o)
                if p: prev = (p["N"], p["E"], p["ND"], p["ED"])
        return any(o.startswith("sync res=ok") or o.startswith("rsync res=ok") for o in outs)

    def oracle(self, ops, outs):
        """Verdict per stored / removed thing from the event list only (not Room::can, not the model).
        Every difference between consecutive table dumps must be justified by a record of that batch
        that satisfies the statement of C02."""
        res = []
        defs, live = {}, {}          # room id -> RoomSpec (under construction / installed)
        sysrows = {}                 # room -> rows written by install (id -> tuple)
        pend = {"node": [], "edge": [], "ndel": [], "edel": []}
        cur = {"N": set(), "E": set(), "ND": set(), "ED": set()}

        def fail(sig, detail):
            res.append((sig, detail))

        for op, out in zip(ops[1:], outs[1:]):
            k, a = kv(op)
            if out == "bad-op":
                break      # an op file that is not well-formed (e.g. over-shrunk): nothing to judge from here on
            if out.startswith("err:") and k != "install":
                fail("malformed", "%s -> %s" % (op, out)); break
            g = lambda x: int(a[x])
            if k == "room":
                defs[g("id")] = RoomSpec(); defs[g("id")].rows = [(g("id"), None, 100, g("t"), g("t"), g("by"), 0)]
                defs[g("id")].edges = []
            elif k == "radmin":
                d = defs[g("room")]; d.admins.append((g("k"), g("t"), a["en"] == "1"))
                d.rows.append((g("id"), None, 102, g("t"), g("t"), g("by"), 1000000 + 2 * g("k") + int(a["en"])))
                d.edges.append((g("room"), 100, 32, g("id"), g("t"), g("by")))
            elif k == "rauth":
                d = defs[g("room")]; d.groups[g("id")] = {"users": [], "uadmins": [], "rights": []}
                d.rows.append((g("id"), None, 101, g("t"), g("t"), g("by"), 1))
                d.edges.append((g("room"), 100, 33, g("id"), g("t"), g("by")))
            elif k in ("rright", "ruser", "ruadmin"):
                d = defs[g("room")]; grp = d.groups[g("g")]
                if k == "rright":
                    grp["rights"].append((g("e"), g("t"), a["ms"] == "1", a["ma"] == "1")); ent, lab = 103, 33
                    tag = 2000000 + 4 * g("e") + 2 * int(a["ms"]) + int(a["ma"])
                elif k == "ruser":
                    grp["users"].append((g("k"), g("t"), a["en"] == "1")); ent, lab = 102, 34
                    tag = 1000000 + 2 * g("k") + int(a["en"])
                else:
                    grp["uadmins"].append((g("k"), g("t"), a["en"] == "1")); ent, lab = 102, 35
                    tag = 1000000 + 2 * g("k") + int(a["en"])
                d.rows.append((g("id"), None, ent, g("t"), g("t"), g("by"), tag))
                d.edges.append((g("g"), 101, lab, g("id"), g("t"), g("by")))
            elif k == "install":
                if out == "ok":
                    d = defs.pop(g("room")); live[g("room")] = d
                    cur["N"] |= set(d.rows)
                    for e in d.edges:
                        cur["E"] = set(x for x in cur["E"] if (x[0], x[2], x[3]) != (e[0], e[2], e[3])) | {e}
                elif not out.startswith("err:"):
                    fail("malformed", out); break
            elif k in pend:
                if out != "q": fail("malformed", "%s -> %s" % (op, out)); break
                pend[k].append(a)
            elif k in ("sync", "rsync"):
                p = parse_sync(out)
                if p is None: fail("malformed", out[:200]); break
                room = g("r")
                self._judge(fail, live, room, pend, cur, p)
                cur = {x: p[x] for x in ("N", "E", "ND", "ED")}
                pend = {"node": [], "edge": [], "ndel": [], "edel": []}
            elif k:
                fail("malformed", op); break
        return res

    # ------------------------------------------------------------------ the statement, per difference
    def _judge(self, fail, live, room, pend, cur, p):
        can = lambda r, k, e, d, rt: (r in live) and live[r].can(k, e, d, rt)
        res = p["res"]
        if not (res in ("ok", "unknownroom", "abandoned") or res.startswith("sig@")):
            fail("malformed", "sync result %s" % res); return
        before_n = {r[0]: r for r in cur["N"]}
        after_n = {r[0]: r for r in p["N"]}
        if len(after_n) != len(p["N"]): fail("duplicate-row-id", "two rows share an id after the batch")
        order = ["edel", "ndel", "nodes", "edges"]
        # `abandoned` (real synchronise_day returned Err): the stage is unknown, every difference is judged
        stopped = order.index(res[4:]) if res.startswith("sig@") else (3 if res == "unknownroom" else 4)

        def first_ok(cands, judge):
            """cands: received records that could explain a difference. OK if one of them satisfies the
            statement; otherwise the objections against the first one are reported."""
            worst = None
            for a in cands:
                obj = judge(a)
                if not obj: return True
                if worst is None: worst = obj
            for o in worst or []: fail(*o)
            return False

        # ---- reference deletion records
        def judge_edel(a):
            t = (int(a["r"]), int(a["src"]), int(a["se"]), int(a["dst"]), int(a["l"]), int(a["c"]), int(a["d"]), int(a["k"]))
            r_, src, se, dst, lab, c, d, k = t
            obj = []
            if a["sig"] != "1": return [("stored-bad-signature", "reference deletion record %s" % (t,))]
            old = [e for e in cur["E"] if e[:5] == (src, se, lab, dst, c)]
            need = ALL if (old and old[0][5] != k) else SELF
            if se not in KNOWN_ENT: obj.append(("unknown-entity-stored", "reference deletion record %s" % (t,)))
            if se in DEFINITION_ENT: obj.append(("authorisation-entity-ingested", DEF_MSG % ("reference deletion record %s" % (t,), se)))
            if not can(r_, k, se, d, need): obj.append(("edge-deletion-without-right", "%s needs %s" % (t, need)))
            if r_ != room: obj.append(("deletion-of-other-room", "reference deletion record of room %d accepted while synchronising room %d" % (r_, room)))
            srow = before_n.get(src)
            if old and srow is not None and srow[1] != r_:
                obj.append(("edge-deletion-foreign-source", "record of room %d deletes a reference whose source row %d is in room %s" % (r_, src, srow[1])))
            return obj

        def edel_key(a):
            return (int(a["r"]), int(a["src"]), int(a["se"]), int(a["dst"]), int(a["l"]), int(a["c"]), int(a["d"]), int(a["k"]))

        deleted_edges = set()
        applied = [a for a in pend["edel"] if stopped > 0 and edel_key(a) in p["ED"]]
        for t in p["ED"] - cur["ED"]:
            if not [a for a in applied if edel_key(a) == t]:
                fail("edge-log-unjustified", "log entry %s matches no received record" % (t,))
        judged = set()
        for e in cur["E"] - p["E"]:
            m = [a for a in applied if (int(a["src"]), int(a["se"]), int(a["l"]), int(a["dst"]), int(a["c"])) == e[:5]]
            repl = [x for x in p["E"] if (x[0], x[2], x[3]) == (e[0], e[2], e[3])]
            if repl: m = [a for a in m if edel_key(a) not in cur["ED"] or not judge_edel(a)]
            if m:
                deleted_edges.add(e)
                for a in m: judged.add(edel_key(a))
                first_ok(m, judge_edel)
            elif not repl: fail("edge-removed-unjustified", "reference %s disappeared" % (e,))
        for t in p["ED"] - cur["ED"]:
            m = [a for a in applied if edel_key(a) == t]
            if m and t not in judged: first_ok(m, judge_edel)

        # ---- node deletion records
        def judge_ndel(a):
            t = (int(a["r"]), int(a["id"]), int(a["e"]), int(a["m"]), int(a["d"]), int(a["k"]))
            r_, id_, ent, m_, d, k = t
            if a["sig"] != "1": return [("stored-bad-signature", "node deletion record %s" % (t,))]
            obj = []
            old = before_n.get(id_)
            need = ALL if (old is not None and old[5] != k) else SELF
            if ent not in KNOWN_ENT: obj.append(("unknown-entity-stored", "node deletion record %s" % (t,)))
            if ent in DEFINITION_ENT: obj.append(("authorisation-entity-ingested", DEF_MSG % ("node deletion record %s" % (t,), ent)))
            if not can(r_, k, ent, d, need): obj.append(("node-deletion-without-right", "%s needs %s" % (t, need)))
            if r_ != room: obj.append(("deletion-of-other-room", "node deletion record of room %d accepted while synchronising room %d" % (r_, room)))
            if old is not None and old[1] == r_ and old[2] != ent:
                obj.append(("deletion-entity-mismatch", "record names entity %d, the deleted row %d is of entity %d" % (ent, id_, old[2])))
            return obj

        def ndel_key(a):
            return (int(a["r"]), int(a["id"]), int(a["e"]), int(a["m"]), int(a["d"]), int(a["k"]))

        applied_n = [a for a in pend["ndel"] if stopped > 1 and ndel_key(a) in p["ND"]]
        judged = set()
        deleted_rows = set()
        for t in p["ND"] - cur["ND"]:
            if not [a for a in applied_n if ndel_key(a) == t]:
                fail("node-log-unjustified", "log entry %s matches no received record" % (t,))
        for id_, old in before_n.items():
            new = after_n.get(id_)
            m = [a for a in applied_n if int(a["id"]) == id_ and old[1] is not None and int(a["r"]) == old[1]]
            # a record whose log entry existed already may have been refused this time: it counts as
            # applied only if the row vanished, the entry is new, or nothing speaks against it
            if new is not None:
                m = [a for a in m if ndel_key(a) not in cur["ND"] or not judge_ndel(a)]
            if m and (new is None or new != old):
                # the row was deleted before the insertion stage (the record is in the log)
                deleted_rows.add(id_)
                for a in m: judged.add(ndel_key(a))
                first_ok(m, judge_ndel)
            elif new is None:
                fail("row-removed-unjustified", "row %s disappeared" % (old,))
        for t in p["ND"] - cur["ND"]:
            m = [a for a in applied_n if ndel_key(a) == t]
            if m and t not in judged: first_ok(m, judge_ndel)

        # ---- rows that appeared or changed
        def judge_node(a, new, old):
            id_, r_, ent, c, md, k, tag = new
            if a["sig"] != "1" or a["js"] in ("notobj", "badjson"):
                return [("stored-bad-signature", "row %s" % (new,))]
            obj = []
            if r_ != room: obj.append(("row-of-other-room", "row %s stored while synchronising room %d" % (new, room)))
            if ent not in KNOWN_ENT: obj.append(("unknown-entity-stored", "row %s" % (new,)))
            if ent in DEFINITION_ENT: obj.append(("authorisation-entity-ingested", DEF_MSG % ("row %s" % (new,), ent)))
            if a["js"] == "none":
                obj.append(("json-absent-accepted", "row %d of entity %d stored without JSON although `name` is mandatory" % (id_, ent)))
            elif not conforms(a): obj.append(("nonconforming-row-stored", "row %d shape %s" % (id_, a["js"])))
            if a["js"] == "big": obj.append(("oversized-row-stored", "row %d" % id_))
            need = ALL if (old is not None and old[5] != k) else SELF
            if not can(r_, k, ent, md, need): obj.append(("row-without-right", "row %s needs %s in room %s" % (new, need, r_)))
            if old is not None:
                if old[1] is None:
                    obj.append(("replace-roomless-row", "row %d (entity %d, no room, author %d) overwritten by a row of room %s by author %d" % (id_, old[2], old[5], r_, k)))
                elif old[1] != r_ and not can(old[1], k, ent, md, need):
                    obj.append(("move-without-right-in-old-room", "row %d moved from room %d" % (id_, old[1])))
                if old[2] != ent:
                    obj.append(("replace-other-entity", "row %d of entity %d overwritten by a row of entity %d" % (id_, old[2], ent)))
            return obj

        recs = {}
        for a in pend["node"]:
            tag = tag_of(a)
            recs.setdefault((int(a["id"]), int(a["r"]), int(a["e"]), int(a["c"]), int(a["m"]), int(a["k"]), tag), []).append(a)
        for id_, new in after_n.items():
            old = before_n.get(id_)
            if new == old: continue
            m = recs.get(new)
            if stopped <= 2 or not m: fail("row-unjustified", "row %s matches no received row" % (new,)); continue
            if id_ in p["nrej"] and len([a for a in pend["node"] if int(a["id"]) == id_]) == 1:
                fail("rejected-row-stored", "row %d is in the reject list and in the table" % id_)
            if id_ in deleted_rows: old = None
            first_ok(m, lambda a: judge_node(a, new, old))

        # ---- references that appeared
        def judge_edge(a, e):
            src, se, lab, dst, c, k = e
            if a["sig"] != "1": return [("stored-bad-signature", "reference %s" % (e,))]
            obj = []
            if se not in KNOWN_ENT: obj.append(("unknown-entity-stored", "reference %s" % (e,)))
            if se in DEFINITION_ENT: obj.append(("authorisation-entity-ingested", DEF_MSG % ("reference %s" % (e,), se)))
            prev = [x for x in cur["E"] if (x[0], x[2], x[3]) == (src, lab, dst) and x not in deleted_edges]
            need = ALL if (prev and prev[0][5] != k) else SELF
            if not can(room, k, se, c, SELF): obj.append(("edge-without-right", "reference %s in room %d" % (e, room)))
            elif need == ALL and not can(room, k, se, c, ALL):
                obj.append(("edge-replaced-without-right", "reference %s of author %d replaced by author %d holding the own-rows right only" % ((src, lab, dst), prev[0][5], k)))
            srow = after_n.get(src)
            if srow is None: obj.append(("edge-foreign-source", "source row %d of the stored reference does not exist" % src))
            elif srow[1] != room: obj.append(("edge-foreign-source", "source row %d of the stored reference is in room %s, synchronised room %d" % (src, srow[1], room)))
            elif srow[2] != se: obj.append(("edge-source-entity-mismatch", "reference names entity %d, source row %d is of entity %d" % (se, src, srow[2])))
            return obj

        for e in p["E"] - cur["E"]:
            m = [a for a in pend["edge"] if (int(a["src"]), int(a["se"]), int(a["l"]), int(a["dst"]), int(a["c"]), int(a["k"])) == e]
            if stopped <= 3 or not m: fail("edge-unjustified", "reference %s matches no received reference" % (e,)); continue
            first_ok(m, lambda a: judge_edge(a, e))

        # ---- an abandoned day leaves the later stages without effect
        if res not in ("ok", "abandoned"):
            if stopped <= 0 and (p["E"], p["ED"]) != (cur["E"], cur["ED"]): fail("trace-after-error", "edge tables changed although the day was abandoned")
            if stopped <= 1 and (p["ND"] != cur["ND"]): fail("trace-after-error", "node log changed although the day was abandoned")


CHECK = C02()
