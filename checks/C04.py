"""C04 — values round-trip unchanged and text is never executed."""
import os, re
from . import lib
from .engine import Cfg


def kv(line):
    t = line.split()
    return (t[0] if t else ""), dict(x.split("=", 1) for x in t[1:] if "=" in x)


def dec(s):
    return "" if s == "" else "".join(chr(int(x)) for x in s.split(","))


def parse_val(t):
    """N | S<cps> | I<int> | B0/B1 | F<bits>:<typed>:<display> -> (kind, payload)"""
    k, r = t[0], t[1:]
    if k == "N": return ("N", None)
    if k == "S": return ("S", dec(r))
    if k == "I": return ("I", int(r))
    if k == "B": return ("B", r == "1")
    if k == "F":
        p = r.split(":")
        return ("F", int(p[0]))
    raise ValueError(t)


def obs_of(val):
    """the observation text the harness prints for a returned value equal to `val`"""
    k, p = val
    if k == "N": return "N"
    if k == "S":
        n = len(p)
        if n <= 300: return "S" + ",".join(str(ord(c)) for c in p)
        h = 0xcbf29ce484222325
        for c in p:
            h ^= ord(c); h = (h * 0x100000001b3) & 0xFFFFFFFFFFFFFFFF
        return "SH%d:%d" % (n, h)
    if k == "I": return "I%d" % p
    if k == "B": return "B%d" % (1 if p else 0)
    if k == "F": return "F%d" % p


def f_of_bits(b):
    import struct
    return struct.unpack("<d", struct.pack("<Q", b))[0]


def vals_equal(a, b):
    if a[0] != b[0]: return False
    if a[0] == "F": return f_of_bits(a[1]) == f_of_bits(b[1])
    return a[1] == b[1]


ESC = {'"': '"', '\\': '\\', '/': '/', 'b': '\b', 'f': '\f', 'n': '\n', 'r': '\r', 't': '\t'}


def json_meaning(tok):
    """what the string token means when read as a JSON string (raw control characters are kept):
    independent of the model's `unescape`. None = not a well formed token."""
    if len(tok) < 2 or tok[0] != '"' or tok[-1] != '"': return None
    s, out, i = tok[1:-1], [], 0
    while i < len(s):
        c = s[i]
        if c == '"': return None
        if c != '\\':
            out.append(c); i += 1; continue
        if i + 1 >= len(s): return None
        e = s[i + 1]
        if e in ESC:
            out.append(ESC[e]); i += 2; continue
        if e == 'u':
            h = s[i + 2:i + 6]
            if len(h) != 4 or not re.fullmatch(r"[0-9a-fA-F]{4}", h): return None
            cp = int(h, 16); i += 6
            if 0xD800 <= cp < 0xDC00 and s[i:i + 2] == "\\u":
                lo = int(s[i + 2:i + 6], 16)
                if 0xDC00 <= lo < 0xE000:
                    cp = 0x10000 + ((cp - 0xD800) << 10) + (lo - 0xDC00); i += 6
            out.append(chr(cp)); continue
        return None
    return "".join(out)


def has_json_escape(tok):
    """a backslash escape other than \\\" (the only one the parsers decode)"""
    if tok is None: return False
    s, i = tok, 0
    while i < len(s):
        if s[i] == '\\':
            if i + 1 < len(s) and s[i + 1] != '"': return True
            i += 2
        else:
            i += 1
    return False


TOK = re.compile(r"""\s+|'(?:[^']|'')*'|'[^']*$|\?\d+|\d+\.?\d*(?:[eE][+-]?\d+)?|\.\d+|[A-Za-z_][A-Za-z0-9_$]*|->>|->|<=|>=|!=|<>|\|\||.""", re.S)


UNARY_AFTER = {"WHEN", "THEN", "ELSE", "AND", "OR", "NOT", "LIMIT", "OFFSET", "=", "<", ">", "<=", ">=", "!=", "<>", "(", ",", "IS"}


def sql_shape(pct_text):
    """lexical shape of an SQL text: numerals (with their sign) -> NUM, true/false -> BOOL, everything else verbatim"""
    from urllib.parse import unquote_to_bytes
    s = unquote_to_bytes(pct_text).decode("utf-8", "replace")
    toks = [t for t in TOK.findall(s) if not t.isspace()]
    out = []
    for t in toks:
        if re.fullmatch(r"\d+\.?\d*(?:[eE][+-]?\d+)?|\.\d+", t):
            if out and out[-1] == "-" and (len(out) < 2 or out[-2].upper() in UNARY_AFTER):
                out.pop()      # a sign, not a subtraction
            out.append("NUM")
        elif t.lower() in ("true", "false"):
            out.append("BOOL")
        elif t.startswith("'") and (len(t) < 2 or not t.endswith("'") or t.count("'") % 2):
            out.append("UNTERMINATED")
        else:
            out.append(t)
    return out


STRINGY = ("String", "Base64", "Json")


class C04(Cfg):
    prop = "C04"
    prop_module = "DiscretModel.Props.C04"
    lean_targets = ["dmodel_query"]
    harness_pkg = "dv-query"
    model_exe = "dmodel_query"
    design_ref = "DESIGN.md §6 C04"
    technique = ("Lean 4 proofs about a model of the value path (serde_json string escaping, literal decoding, integer printing, "
                 "the SQL text as a token list with bound and spliced material) + correspondence run against the real parsers, "
                 "SQL generator and SQLite with boundary-heavy values in every position")
    level_text = (
        "Theorems (Lean 4, no bound on string length, code point or integer size) about a model of the value path: "
        "unescape(escape s)=s for every string of Unicode scalars (serde_json escaping as written into _json, read back by the client); "
        "parse(print i)=i for every integer; an admitted parameter is stored and returned as itself; exact characterisation of the strings that survive "
        "being typed as a JSON string literal (no backslash, no C0 control) and of the literals that mean what they spell (only the \\\" escape); "
        "the equality filter matches the stored value (null parameter excepted) and nothing else; the SQL statement as a token list: for the code as it is (since the fixes d527622 and cedb2ae) "
        "no text is written between quotes, every spliced numeral is digits/sign only, and the tokens, ?n numbering and binding order are those of the query's skeleton "
        "(all literal/default values erased). Counter-examples (decide/simp-checked) for the code as it is: literal escapes not decoded, null parameter never matched; "
        "regression witnesses for the code before the two fixes: a String default spliced between quotes into the filter SQL, a variable taking the slot of a literal with the same text. "
        "The model is tied to the code on every run: the real MutationParser/QueryParser/DataModel/PreparedQueries/Query::read on SQLite (and GraphDatabaseService::mutate/query/update_data_model for a sample) and the compiled model "
        "run the same op file; compared per value: accept/reject class, the _json text, the raw result text, the decoded value, sibling fields, a digest of all other rows, the rows matched by the equality filter, "
        "and the SQL text of both statements byte for byte. Independent oracle on the implementation: returned value = intended value (JSON meaning of the literal), filter matches exactly the equal rows, "
        "other rows/fields unchanged, one lexical SQL shape per case.")
    level_note = (
        "Proved about the model only; the Rust code is tied by the differential run, not verified. Floats and Json values are opaque to the model: their round trip, "
        "and the filters/defaults that involve a float printed into the SQL text, are judged by the harness (exact f64 bit patterns, structural JSON equality) and not by a theorem. "
        "Equality filters on Json fields have no defined meaning and are not checked. Aliases/identifiers: only a fixed alias is exercised (SQL keywords as identifiers belong to C14). "
        "The full-text search term is bound (statement shape unchanged) but is itself an FTS5 query expression - not covered here. SQLite's JSON functions are trusted as observed (3.45.3). "
        "The SQL token model covers scalar selections, one level of entity/array sub-selection and filters (no ordering, paging, aggregates, json selectors, search).")
    trusted_base = [
        "hand-written model lean/DiscretModel/Model/Value.lean, tied by the correspondence run (dv-query vs dmodel_query), incl. byte-identical SQL text for the covered query shapes",
        "harness/query (drives the real parsers, SQL generator, rusqlite/SQLite 3.45.3 and, for a sample, the GraphDatabaseService API); its result reader uses serde_json for strings and Rust's f64 parser for numbers",
        "SQLite: JSON text of strings and numbers is re-emitted as stored; text comparison is bytewise (observed, not proved)",
    ]
    assumptions = [
        "a literal 'means' the JSON string it spells (the grammars' string rule is JSON's); raw control characters inside a literal stand for themselves",
        "float equality is numeric; -0.0 and 0.0 are kept out of the same case",
        "Json null and Json scalars are left to C14/C12 (a null Json value panics a reader thread: candidate #6)",
    ]

    def streams(self, tier, seed, work, dv):
        n = 2000 if tier == "quick" else 40000
        path = os.path.join(work, "values.ops")
        lib.sh([dv, "gen", "--prop", "C04", "--seed", str(seed), "--n", str(n), "--tier", tier, "--out", path], check=True)
        return [("values seed=%d n=%d" % (seed, n), path, False)]

    def nontrivial(self, ops, outs):
        return any(o.startswith("st=ok") for o in outs)

    def oracle_updates(self, ops, outs):
        """update stream: every field not assigned by an update keeps its value, an assigned one takes the new one,
        no other row changes — computed from the op lines only"""
        res = []
        _, c = kv(ops[0])
        tys = c.get("tys", "").split(",")
        state = None
        for op, out in zip(ops[1:], outs[1:]):
            k, a = kv(op)
            _, o = kv("x " + out)
            if out == "st=panic":
                res.append(("panic", op[:100])); continue
            if k == "new":
                state = [None if t == "-" else parse_val(t) for t in a.get("v", "").split(";")]
                assigned = set(range(len(state)))
            elif k == "upd" and state is not None:
                assigned = set()
                for t in [x for x in a.get("set", "").split(";") if x]:
                    j, v = t.split(":", 1); state[int(j)] = parse_val(v); assigned.add(int(j))
            else:
                continue
            if o.get("st") != "ok":
                res.append(("admissible-refused", "%s: %s" % (o.get("st"), op[:100]))); continue
            got = o.get("row", "").split(";")
            want = ["N" if v is None else obs_of(v) for v in state]
            for j, (g, w_) in enumerate(zip(got, want)):
                if g != w_:
                    sig = "roundtrip" if j in assigned else "update-loses-other-fields"
                    res.append((sig, "%s: field f%d (%s) reads %s, expected %s" % (k, j, tys[j] if j < len(tys) else "?", g[:40], w_[:40])))
            if len(got) != len(want): res.append(("roundtrip", "row has %d fields" % len(got)))
            if o.get("oth") != "same": res.append(("other-row-changed", out[:80]))
        seen, uniq = set(), []
        for s_, d in res:
            if s_ not in seen:
                seen.add(s_); uniq.append((s_, d))
        return uniq

    def oracle(self, ops, outs):
        res = []
        k, c = kv(ops[0])
        if k == "case" and c.get("e") == "c04u": return self.oracle_updates(ops, outs)
        if k != "case" or c.get("e") != "c04": return res
        ty, pos, fpos = c.get("ty"), c.get("pos"), c.get("fpos")
        shapes = {}      # (which, null?) -> (shape, op index)
        for idx, (op, out) in enumerate(zip(ops[1:], outs[1:])):
            k, a = kv(op)
            if k != "val": continue
            _, o = kv("x " + out)
            st = o.get("st", "")
            if st == "panic":
                res.append(("panic", op[:120])); continue
            adm = a.get("adm") == "1"
            if not adm:
                if not st.startswith("err:"): res.append(("inadmissible-accepted", op[:120]))
                continue
            if st != "ok":
                res.append(("admissible-refused", "%s: %s" % (st, op[:120]))); continue
            v = parse_val(a["v"])
            ltok = dec(a["l"]) if "l" in a else None
            ftok = dec(a["fl"]) if "fl" in a else None
            esc = has_json_escape(ltok) if ty in STRINGY else False
            fesc = has_json_escape(ftok) if ty in STRINGY else False
            # a literal means the JSON string it spells (checked independently of the generator)
            if ty == "String" and ltok is not None and v[0] == "S" and json_meaning(ltok) != v[1]:
                res.append(("generator", "token does not spell the intended value")); continue
            # ---- returned unchanged
            ret = o.get("ret", "")
            ok = False
            if ret == "*":
                ok = True          # judged by the harness (Float default: SQLite prints 15 digits), see <out>.oracle
            elif ty == "Json" and v[0] == "S":
                ok = ret == "Jsame"
                if not ok and pos == "default" and ret.startswith("S"):
                    ok = True      # a Json default comes back as a JSON string: left to C05 (defaults applied)
            else:
                ok = ret == obs_of(v)
                if not ok and pos == "default" and v[0] == "B" and ret == "I%d" % (1 if v[1] else 0):
                    ok = True      # a Boolean default comes back as 0/1: left to C05
            # the slot of a variable taken by a literal/default with the same text as the variable's name
            id_alias = ret == "norow" and pos == "default" and ty in STRINGY and ltok is not None and json_meaning(ltok) == "id"
            a_alias = fpos == "lit" and ty in STRINGY and ftok is not None and json_meaning(ftok) == "a"
            if id_alias:
                res.append(("variable-aliases-literal", "default value \"id\" took the slot of $id: the row is not returned"))
            elif not ok:
                res.append(("literal-escape-not-decoded" if esc else "roundtrip",
                            "intended %s returned %s" % (obs_of(v)[:60], ret[:60])))
            if o.get("sib") != "ok" and not id_alias: res.append(("other-field-changed", out[:80]))
            if o.get("oth") != "same": res.append(("other-row-changed", out[:80]))
            # ---- matched by an equality filter
            flt = o.get("flt", "")
            if flt != "*":
                exp = [7] + [100 + i for i, d in enumerate(a.get("d", "").split(";")) if d and vals_equal(parse_val(d), v)]
                exp_s = ",".join(str(x) for x in sorted(exp))
                if flt != exp_s:
                    if a_alias: sig = "variable-aliases-literal"
                    elif pos == "default" and ty in STRINGY and flt.startswith("err:sql"): sig = "default-spliced-into-sql"
                    elif v[0] == "N" and fpos == "param": sig = "null-param-filter-no-match"
                    elif esc or fesc: sig = "literal-escape-not-decoded"
                    elif ty == "Float": sig = "float-filter-mismatch"
                    else: sig = "filter-mismatch"
                    res.append((sig, "expected rows %s got %s" % (exp_s, flt)))
            # ---- never executed: the statement text has one shape per case
            for which in ("sql", "fsql"):
                t = o.get(which, "-")
                if t == "-": continue
                sh = sql_shape(t)
                key = (which, v[0] == "N")
                aliasing = (which == "fsql" and a_alias) or (which == "sql" and id_alias)
                if key not in shapes: shapes[key] = (sh, idx, aliasing)
                elif shapes[key][0] != sh:
                    sig = "default-spliced-into-sql" if (pos == "default" and ty in STRINGY) else "sql-depends-on-value"
                    if aliasing or shapes[key][2]:
                        sig = "variable-aliases-literal"
                    res.append((sig, "%s of value %d differs in shape from value %d" % (which, idx, shapes[key][1])))
                if "UNTERMINATED" in sh:
                    res.append(("default-spliced-into-sql" if pos == "default" else "sql-depends-on-value", "unterminated string in " + which))
        # one report per signature and case
        seen, uniq = set(), []
        for s, d in res:
            if s not in seen:
                seen.add(s); uniq.append((s, d))
        return uniq


CHECK = C04()
