"""C01 — local writes are applied only with the room's rights at that time."""
import os
from . import lib
from .engine import Cfg
from .roomlib import kv, ulist, rlist, nest_tree


# ----------------------------------------------------------------------------- independent evaluator
class RoomDef:
    """A room definition rebuilt from the accepted room mutations, evaluated from the *specification*
    (`can_iff`): an entry is in force at d if it is the last inserted among those of its key with the greatest
    date <= d; a key may use a right of a group if it is admin of the room or a valid member (user or user
    admin) of that group; a group grants through the entity's own entry, or the wildcard's when the entity has none."""

    def __init__(self):
        self.admins = []                 # (key, date, enabled)
        self.groups = {}                 # g -> {"u": [], "ua": [], "r": [(entity, date, self, all)]}

    @staticmethod
    def in_force(entries, key, d):
        best = None
        for e in entries:
            if e[0] == key and e[1] <= d and (best is None or e[1] >= best[1]):
                best = e
        return best

    def enabled(self, entries, key, d):
        e = self.in_force(entries, key, d)
        return bool(e and e[2])

    def is_admin(self, key, d):
        return self.enabled(self.admins, key, d)

    def member(self, g, key, d):
        return self.enabled(self.groups[g]["u"], key, d) or self.enabled(self.groups[g]["ua"], key, d)

    def user_admin(self, g, key, d):
        return g in self.groups and self.enabled(self.groups[g]["ua"], key, d)

    def grants(self, g, entity, d, right):
        r = self.in_force(self.groups[g]["r"], entity, d) or self.in_force(self.groups[g]["r"], 0, d)
        if not r: return False
        own, allr = (r[2] or r[3]), r[3]
        return own if right == "self" else allr

    def can(self, key, entity, d, right):
        adm = self.is_admin(key, d)
        return any((adm or self.member(g, key, d)) and self.grants(g, entity, d, right) for g in self.groups)

    def apply(self, a):
        d = int(a["d"])
        for k, en in ulist(a.get("adm", "")): self.admins.append((k, d, en))
        for g in [x for x in a.get("grp", "").split(",") if x]:
            grp = self.groups.setdefault(int(g), {"u": [], "ua": [], "r": []})
            for k, en in ulist(a.get("g%s.u" % g, "")): grp["u"].append((k, d, en))
            for k, en in ulist(a.get("g%s.ua" % g, "")): grp["ua"].append((k, d, en))
            for e, ms, ma in rlist(a.get("g%s.r" % g, "")): grp["r"].append((e, d, ms, ma))


def parse_dump(out):
    """`ok N[..] E[..] DN[..] DE[..]` -> (verdict, rows{h: tuple}, edges set, dn set, de set)"""
    head, _, rest = out.partition(" ")
    parts = {}
    for name in ("N", "E", "DN", "DE"):
        i = rest.find(name + "[")
        j = rest.find("]", i)
        body = rest[i + len(name) + 1:j]
        parts[name] = [x for x in body.split(",") if x]
        rest = rest[:i] + rest[j + 1:]
    rows = {}
    for x in parts["N"]:
        h, e, room, author, cdate, mdate, v = x.split(":")
        rows[h] = (int(e), room, author, int(cdate), int(mdate), v)
    return head, rows, set(parts["E"]), set(parts["DN"]), set(parts["DE"])


class C01(Cfg):
    prop = "C01"
    prop_module = "DiscretModel.Props.C01"
    lean_targets = ["dmodel_room"]
    harness_pkg = "dv-room"
    model_exe = "dmodel_room"
    design_ref = "DESIGN.md §5, §6 C01, App. A.1-A.4"
    technique = ("Lean 4 proofs over a literal model of the local write path (plan of the mutation tree, validate_entity_mutation, "
                 "validate_deletion, write) on top of the shared room model + correspondence run of the compiled model against the real "
                 "functions (MutationQuery::execute, RoomAuthorisations::validate_mutation/validate_deletion, write) driven with several caller "
                 "identities on one database + an independent rights oracle evaluated over the list of accepted room mutations")
    level_text = ("Theorems (Lean 4, any room history, caller, date, database content): for the intended behaviour (Defects.none) every row created, "
                  "changed, moved, re-signed or deleted by an accepted local operation belongs to a change that passed the right check — own-rows right "
                  "when the caller creates the row or is its author, all-rows right otherwise, at the date of the operation, in the room the row enters AND in "
                  "the room it leaves; a refused operation returns the database unchanged; the decision is the room's at that date (past stability, C10 lemmas). "
                  "Each deviation found is a switch with a decide-checked witness: the nested sub-entity under an unchanged parent (#1), the departing room looked up "
                  "with the destination id (#2), the source row re-signed by a reference deletion that removes nothing (#3a), the unguarded reference deletion on sys.Room (#32) "
                  "- all FIXED in /repo since (c887d69, cfb7678, 456214b, f1df104; replays kept as regression cases) - and, still open: the right of a reference deletion judged "
                  "on the reference's author (#3b), incoming references removed with a deleted row; the guarded statement is proved for any switch values. Mutation trees of ANY depth (structural recursion on the tree: "
                  "flatten; rooms inherited from the nearest ancestor naming one; C01_rows / C01_references / C01_partial for every tree; the guard of C01_partial is 'no changed row below an unchanged one'); "
                  "C01_partial_delete_node gives the exact footprint of a node deletion for any switch values. A room mutation names only groups of the mutated room: a sys.Authorisation id that is "
                  "not one of its groups (the group of another room, a data row, an admin entry) is refused (C01_room_mutation_foreign_group, C01_room_mutation_groups_belong) and an accepted mutation of one "
                  "room leaves the stored and in-memory definition of every other room as it is (C01_room_mutation_other_rooms); the run makes admins of one room name groups of other rooms and "
                  "arbitrary row ids, observes the STORED definition of every room (rstored) and flags any change that no accepted mutation of that room explains (foreign-room-definition-changed). Room mutations: the caller of an accepted room mutation is admin in the resulting room or only "
                  "adds users to groups it administers; the run's oracle judges every accepted room update on the definition BEFORE it (admins, rights, user admins, new groups "
                  "need a room admin at the op's date; a group's users a room admin or that group's user admin) and the generator makes user admins that are not room admins try each of these. The model is tied to /repo by running both on generated operation sequences and comparing verdict and the full "
                  "content of _node, _edge and both deletion logs after every operation.")
    level_note = ("Trusted: Lean kernel, the hand-written model lean/DiscretModel/Model/LocalWrite.lean (+Room, RoomBuild) and its harness. Modelled and exercised: "
                  "mutation_query.rs (plan), authorisation_service.rs validate_* (local), deletion.rs. Mutation trees of any depth in the model (structural recursion on the tree), depth <= 5 in the run; "
                  "one reference field per entity of the tree. Only exercised: SQL text, pest parsers, serde. Several caller identities share one database "
                  "through RoomAuthorisations values built by the harness (public fields) — a running service has one identity.")
    trusted_base = [
        "hand-written model lean/DiscretModel/Model/LocalWrite.lean, tied by the correspondence run (dv-room mode=fn vs dmodel_room)",
        "harness/room/src/bench.rs: calls the real plan/validate/write functions in the order the services chain them",
    ]
    assumptions = [
        "one scalar field and at most one reference field per entity of a mutation tree (any depth); rows named twice in one tree are not generated",
        "the services chain parse -> execute -> validate -> write as bench.rs does (checked on the C10 stream, which goes through the real services)",
    ]

    def streams(self, tier, seed, work, dv):
        n = 400 if tier == "quick" else 6000
        path = os.path.join(work, "ops.ops")
        lib.sh([dv, "gen", "--prop", "C01", "--seed", str(seed), "--n", str(n), "--out", path], check=True)
        res = [("operations seed=%d n=%d" % (seed, n), path, False)]
        n2 = 60 if tier == "quick" else 1500
        path2 = os.path.join(work, "long.ops")
        lib.sh([dv, "gen", "--prop", "C01", "--seed", str(seed + 7000001), "--n", str(n2), "--out", path2, "--long"], check=True)
        res.append(("long sequences seed=%d n=%d" % (seed + 7000001, n2), path2, False))
        return res

    def nontrivial(self, ops, outs):
        return any(o.startswith("ok N[") and not o.startswith("ok N[]") for o in outs)

    # ------------------------------------------------------------------ oracle
    def oracle(self, ops, outs):
        res = []
        defs = {}                                   # room index -> RoomDef
        prev = ("", {}, set(), set(), set())
        stored_last = {}                            # room -> (stored definition as last observed, line)
        changed_by = {}                             # room -> lines of the accepted operations ON that room since then
        for i, (op, out) in enumerate(zip(ops, outs)):
            k, a = kv(op)
            if k == "rstored":
                # (b)/(c) the STORED definition of a room (room row, admin entries, groups and their entries, with the
                # keys that signed them) differs between two observations only if a mutation OF THAT ROOM was accepted in
                # between (whose caller is judged above); any other operation - a mutation of another room, a data
                # operation - must leave it as it is
                r = a.get("r")
                if out not in ("none", "bad-op"):
                    if r in stored_last and stored_last[r][0] != out and not changed_by.get(r):
                        j = stored_last[r][1]
                        between = [ops[x] for x in range(j + 1, i) if not ops[x].startswith(("rstored", "robs"))]
                        res.append(("foreign-room-definition-changed",
                                    "line %d: the stored definition of room %s changed although no mutation of that room was accepted since line %d: "
                                    "was %s now %s; operations in between: %s" % (i, r, j, stored_last[r][0], out, " | ".join(between))))
                    stored_last[r] = (out, i); changed_by[r] = []
                continue
            if (k == "rmut" and out == "ok") or (k == "deladm" and out.startswith("ok")):
                changed_by.setdefault(a.get("r"), []).append(i)
            if k == "rmut":
                if out != "ok": continue
                r, caller, d = int(a["r"]), int(a["k"]), int(a["d"])
                was_known = r in defs
                gs = [g for g in a.get("grp", "").split(",") if g]
                if was_known:
                    # (c) an accepted UPDATE, judged on the definition BEFORE the op at the op's date: admins, rights,
                    # user admins and new groups need a room admin; the users of a group need a room admin or a user
                    # admin of that group
                    before = defs[r]
                    is_admin = before.is_admin(caller, d)
                    lacking = []
                    if not is_admin:
                        if a.get("adm"): lacking.append("admins")
                        for g in gs:
                            if int(g) not in before.groups: lacking.append("new group %s" % g)
                            if a.get("g%s.r" % g): lacking.append("rights of group %s" % g)
                            if a.get("g%s.ua" % g): lacking.append("user admins of group %s" % g)
                            if a.get("g%s.u" % g) and not before.user_admin(int(g), caller, d):
                                lacking.append("users of group %s" % g)
                    if lacking:
                        res.append(("room-definition-changed-without-admin-right",
                                    "line %d: %s accepted, but before it key %d is not admin of room %d at %d%s: it changed %s"
                                    % (i, op, caller, r, d,
                                       " (it is user admin of group(s) %s)" % ",".join(str(g) for g in sorted(before.groups) if before.user_admin(g, caller, d))
                                       if any(before.user_admin(g, caller, d) for g in before.groups) else "",
                                       ", ".join(lacking))))
                    before.apply(a)
                else:
                    rd = defs.setdefault(r, RoomDef())
                    rd.apply(a)
                    # a creation with entries: the creator is admin of what it creates
                    has_entries = bool(a.get("adm")) or any(a.get("g%s.%s" % (g, t)) for g in gs for t in ("r", "u", "ua"))
                    if has_entries and not rd.is_admin(caller, d):
                        res.append(("room-changed-by-non-admin",
                                    "line %d: %s accepted, but key %d is not admin of the room it creates, at %d" % (i, op, caller, d)))
                continue
            if k == "deladm":
                if out.startswith("ok"):
                    res.append(("sys-ref-deletion-unguarded",
                                "line %d: %s accepted: a reference of the room row was removed and the row re-signed outside a room mutation (%s)" % (i, op, out)))
                continue
            if k not in ("new", "upd", "nest", "null", "del", "delref"): continue
            if out == "bad-op": continue
            cur = parse_dump(out)
            head, rows, edges, dn, de = cur
            _, prows, pedges, pdn, pde = prev
            if head != "ok":
                if (rows, edges, dn, de) != (prows, pedges, pdn, pde):
                    res.append(("refused-op-changed-state", "line %d: %s -> %s but the stored content changed" % (i, op, head)))
                prev = cur
                continue
            caller, d = int(a["k"]), int(a["d"])
            changed = [h for h in rows if prows.get(h) != rows[h]]
            deleted = [h for h in prows if h not in rows]
            touched = set(changed) | set(deleted)
            for e in edges ^ pedges:
                touched.add(e.split(">")[0])

            def need(h):
                """(entity, right, rooms to check) for row h"""
                old, new = prows.get(h), rows.get(h)
                ent = (new or old)[0]
                own = old is None or old[2] == str(caller)
                rooms = set()
                if old and old[1] != "-": rooms.add(int(old[1]))
                if new and new[1] != "-": rooms.add(int(new[1]))
                return ent, ("self" if own else "all"), rooms

            for h in sorted(touched):
                if h not in rows and h not in prows: continue
                ent, right, rms = need(h)
                for r in sorted(rms):
                    ok = r in defs and defs[r].can(caller, ent, d, right)
                    if ok: continue
                    old, new = prows.get(h), rows.get(h)
                    sig = "unauthorised-write"
                    if k == "nest" and h != a["h"] and any(prows.get(x) == rows.get(x) for x in nest_tree(a).get(h, [a["h"]])):
                        sig = "nested-subnode-unchanged-parent"      # some row above it in the tree is unchanged
                    elif old and new and old[1] != new[1] and old[1] != "-" and str(r) == old[1]:
                        sig = "move-departing-room-unchecked"
                    elif k == "delref" and h == a["h"]:
                        sig = "ref-deletion-resigns-source-row"
                    elif k == "del" and h != a["h"] and old == new:
                        sig = "node-deletion-removes-foreign-references"
                    res.append((sig, "line %d: %s by key %d at %d changes row %s (entity %d, %s) without the %s-rows right in room %d"
                                % (i, op, caller, d, h, ent, "was %s now %s" % (old, new), right, r)))
            prev = cur
        uniq, out_res = set(), []
        for sig, dtl in res:
            if sig not in uniq:
                uniq.add(sig); out_res.append((sig, dtl))
        return out_res


CHECK = C01()
