"""C14 — no input crashes, wedges or confuses an instance."""
import os, random
from . import lib, engine
from .engine import Cfg
from .C15 import run_translators, with_hints, replay_with_hints


def hx(s):
    return s.encode("utf-8").hex()


SQLITE_KEYWORDS = ("abort action add after all alter always analyze and as asc attach autoincrement before begin between by "
                   "cascade case cast check collate column commit conflict constraint create cross current current_date "
                   "current_time current_timestamp database default deferrable deferred delete desc detach distinct do drop "
                   "each else end escape except exclude exclusive exists explain fail filter first following for foreign from "
                   "full generated glob group groups having if ignore immediate in index indexed initially inner insert instead "
                   "intersect into is isnull join key last left like limit match materialized natural no not nothing notnull "
                   "null nulls of offset on or order others outer over partition plan pragma preceding primary query raise "
                   "range recursive references regexp reindex release rename replace restrict returning right rollback row "
                   "rows savepoint select set table temp temporary then ties to transaction trigger unbounded union unique "
                   "update using vacuum values view virtual when where window with without").split()

IDENT_POOL = ["a", "name", "age", "nick", "tags", "x_1", "_p", "Zed", "été", "имя", "名前", "n1", "1n", "٣x", "group", "Order",
              "select", "index", "x", "jd", "pet", "parents", "id", "cdate", "room_id", "TRUE", "null", "desc"]


class Gen:
    """grammar-derived request texts over the harness' live model (harness/schema/src/c14.rs MODEL),
    mostly valid for the grammar, then mutated"""

    def __init__(self, rnd):
        self.r = rnd

    def pick(self, l): return l[self.r.randrange(len(l))]
    def chance(self, a, b): return self.r.randrange(b) < a

    def ws(self):
        return self.pick([" ", " ", " ", "\n", "\t", "  ", " // c\n", "\r\n", ""])

    def sp(self):
        return self.pick([" ", " ", "\n ", " //x\n "])

    def ident(self):
        return self.pick(IDENT_POOL) if self.chance(1, 4) else self.pick(["name", "age", "nick", "tags", "jd", "label", "n", "v"])

    def entity(self):
        return self.pick(["Person", "Person", "Pet", "ns.Thing", "Probe", "ES1", "EJ1", "EI0", "Nope", "ns.Nope", "sys.Room", "Ns.Thing"])

    def string(self):
        return self.pick(['"abc"', '""', '"a\\"b"', '"\\n\\u00e9"', '"é 名"', '"[1]"', '"abcd"', '"a\\\\"', '"it\'s"', '"%"', '"a b"'])

    def number(self):
        return self.pick(["0", "7", "-3", "1.5", "-0.25", "1e3", "2.0E-2", "007", "9223372036854775807", "9223372036854775808", "1."])

    def variable(self):
        return "$" + self.pick(["i1", "s1", "f1", "b1", "n1", "x1", "j1", "id", "i2", "s2", "missing_"])

    def scalar(self):
        k = self.r.randrange(7)
        return [self.string, self.number, self.variable, lambda: self.pick(["true", "false", "TRUE"]),
                lambda: self.pick(["null", "NULL"]), self.string, self.number][k]()

    # ---- data model
    def dm_field(self):
        name = self.pick(["a", "b", "c", "name", "été", "n1", "_x", "json", "id", "x_y"])
        dep = "@deprecated " if self.chance(1, 8) else ""
        k = self.r.randrange(8)
        if k == 0: return "%s%s:%s[%s]%s" % (dep, name, self.ws(), self.pick(["P", "ns.Q", "Nope"]), self.pick(["", " nullable"]))
        if k == 1: return "%s%s: %s%s" % (dep, name, self.pick(["P", "ns.Q"]), self.pick(["", " nullable", " NULLABLE"]))
        ty = self.pick(["Integer", "Float", "Boolean", "String", "Base64", "Json", "integer", "STRING"])
        suffix = self.pick(["", "", " nullable", " default 3", " default 1.5", " default true", ' default "abc"', ' default "[1]"',
                            " DEFAULT -2", ' default "abcd"', " nullable default 3"])
        return "%s%s%s:%s%s%s" % (dep, name, self.pick(["", " "]), self.pick(["", " "]), ty, suffix)

    def dm_entity(self, name):
        dep = "@deprecated " if self.chance(1, 10) else ""
        par = self.pick(["", "", "()", "(no_full_text_index)", "( no_full_text_index , )", "(full)"])
        entries = [self.dm_field() for _ in range(1 + self.r.randrange(3))]
        if self.chance(1, 4): entries.append("index(%s)" % ", ".join(self.pick(["a", "b", "id", "zz"]) for _ in range(1 + self.r.randrange(2))))
        if self.chance(1, 12): entries = []
        sep = self.pick([",", " ,\n", ", "])
        return "%s%s%s%s{%s%s%s}" % (dep, name, self.pick(["", " "]), par, self.ws(), sep.join(entries), self.pick(["", ",", " "]))

    def data_model(self):
        out = []
        for ns in self.r.sample(["", "ns", "App", "x1"], 1 + self.r.randrange(2)):
            ents = [self.dm_entity(n) for n in self.r.sample(["P", "Q", "R"], 1 + self.r.randrange(2))]
            out.append("%s%s{%s%s%s}" % (ns, self.ws(), self.ws(), self.ws().join(ents), self.ws()))
        return self.ws().join(out)

    # ---- query
    def q_param(self):
        k = self.r.randrange(10)
        if k == 0: return "search(%s)" % self.pick(['"al"', "$s1", '""'])
        if k == 1: return "order_by(%s)" % ", ".join("%s %s" % (self.ident(), self.pick(["asc", "desc", "DESC"])) for _ in range(1 + self.r.randrange(2)))
        if k == 2: return "first %s" % self.pick(["3", "$i1", "0", "-1"])
        if k == 3: return "skip %s" % self.pick(["1", "$i1"])
        if k == 4: return "%s(%s)" % (self.pick(["before", "after"]), ", ".join(self.scalar() for _ in range(1 + self.r.randrange(2))))
        if k == 5: return "nullable(%s)" % ", ".join(self.pick(["pet", "parents", "name"]) for _ in range(1 + self.r.randrange(2)))
        if k == 6: return "%s->%s %s %s" % (self.pick(["tags", "jd", "name"]), self.pick(["$.a", "0", "$.a[1].b", "$"]), self.pick(["=", "!=", ">", "<="]), self.scalar())
        return "%s %s %s" % (self.ident(), self.pick(["=", "!=", ">", ">=", "<", "<="]), self.scalar())

    def q_field(self, depth):
        k = self.r.randrange(10)
        if k == 0 and depth < 2: return self.q_entity(depth + 1, sub=True)
        if k == 1: return "%s: %s" % (self.ident(), self.ident())
        if k == 2: return "%s: %s" % (self.ident(), self.pick(["count()", "avg(age)", "max(age)", "min(name)", "sum(age)", "count(age)"]))
        if k == 3: return "%s: %s->%s" % (self.ident(), self.pick(["tags", "jd"]), self.pick(["$.a", "0", "$.a[1].b", "$", "$.é"]))
        return self.ident()

    def q_entity(self, depth=0, sub=False):
        name = self.pick(["pet", "parents", "owner"]) if sub else self.entity()
        alias = "%s%s:%s" % (self.pick(IDENT_POOL + ["a.b"]), self.pick(["", " "]), self.pick(["", " "])) if self.chance(1, 4) else ""
        params = ""
        if self.chance(1, 2):
            ps = [self.q_param() for _ in range(self.r.randrange(3))]
            params = "(%s%s)" % (self.pick([", ", ",", " , "]).join(ps), self.pick(["", ","]))
        fields = [self.q_field(depth) for _ in range(self.r.randrange(4))] if self.chance(9, 10) else []
        return "%s%s%s%s{%s%s%s}" % (alias, name, self.pick(["", " "]), params, self.sp(), self.sp().join(fields), self.sp())

    def query(self):
        return "query%s{%s%s%s}" % (self.pick([" q", " ", "", " group", " q1"]), self.ws(), self.ws().join(self.q_entity() for _ in range(1 + self.r.randrange(2))), self.ws())

    # ---- mutation
    def m_value(self, depth):
        k = self.r.randrange(8)
        if k == 0 and depth < 2: return "{%s}" % self.m_fields(depth + 1)
        if k == 1 and depth < 2: return "[%s]" % self.pick([", ", ","]).join("{%s}" % self.m_fields(depth + 1) for _ in range(self.r.randrange(3)))
        return self.scalar()

    def m_fields(self, depth):
        return self.sp().join("%s%s:%s%s" % (self.pick(["name", "age", "nick", "tags", "jd", "pet", "parents", "id", "room_id", "v", "label", "owner", "zz"]),
                                             self.pick(["", " "]), self.pick(["", " "]), self.m_value(depth)) for _ in range(self.r.randrange(4)))

    def mutation(self):
        ents = []
        for _ in range(1 + self.r.randrange(2)):
            alias = "%s: " % self.pick(IDENT_POOL) if self.chance(1, 5) else ""
            ents.append("%s%s%s{%s%s%s}" % (alias, self.entity(), self.pick(["", " "]), self.sp(), self.m_fields(0), self.sp()))
        return "mutate%s{%s%s%s}" % (self.pick([" m", " ", ""]), self.ws(), self.ws().join(ents), self.ws())

    # ---- deletion
    def deletion(self):
        ents = []
        for _ in range(1 + self.r.randrange(2)):
            arr = ["%s[%s]" % (self.pick(["parents", "pet", "name"]), ", ".join(self.variable() for _ in range(1 + self.r.randrange(2)))) for _ in range(self.r.randrange(2))]
            ents.append("%s%s{%s%s%s%s}" % (self.entity(), self.pick(["", " "]), self.sp(), self.pick(["$id", "$x1", "$s1", "id"]), self.sp(), self.sp().join(arr)))
        return "delete%s{%s%s%s}" % (self.pick([" d", " ", ""]), self.ws(), self.ws().join(ents), self.ws())

    # ---- requests that are valid for the live model by construction
    SCHEMA = {
        "Person": dict(scalars=[("name", "s"), ("age", "i"), ("nick", "s")], json=["tags", "jd"], refs=[("parents", "Person"), ("pet", "Pet")], required=["name"]),
        "Pet": dict(scalars=[("name", "s")], json=[], refs=[], required=["name"]),
        "ns.Thing": dict(scalars=[("label", "s")], json=[], refs=[("owner", "Person")], required=["label"]),
        "Probe": dict(scalars=[("n", "i")], json=[], refs=[], required=["n"]),
    }

    def typed(self, t):
        if t == "i": return self.pick(["7", "-3", "0", "$i1", "$i2", "42"])
        return self.pick(['"abc"', '"é 名"', '"a\\"b"', "$s1", "$s2", '""'])

    def vq_entity(self, name, depth=0, sub=None):
        sc = self.SCHEMA[name]
        fields = [f for f, _ in sc["scalars"] if self.chance(2, 3)] or [sc["scalars"][0][0]]
        if self.chance(1, 3): fields.append("id")
        if self.chance(1, 4): fields.append("%s: %s" % (self.pick(["a1", "zz", "été", "x_1"]), sc["scalars"][0][0]))
        for j in sc["json"]:
            if self.chance(1, 3): fields.append(self.pick([j, "%s_a: %s->$.a" % (j, j), "%s_0: %s->0" % (j, j)]))
        if depth < 2:
            for f, target in sc["refs"]:
                if self.chance(1, 3): fields.append(self.vq_entity(target, depth + 1, sub=f))
        params = []
        if self.chance(1, 2):
            f, t = self.pick(sc["scalars"])
            params.append("%s %s %s" % (f, self.pick(["=", "!=", ">", ">=", "<", "<="]), self.typed(t)))
        if self.chance(1, 3): params.append("order_by(%s %s)" % (self.pick(sc["scalars"])[0], self.pick(["asc", "desc"])))
        if self.chance(1, 4): params.append("first %s" % self.pick(["1", "3", "$i1"]))
        if self.chance(1, 6): params.append("skip %s" % self.pick(["0", "1", "$i1"]))
        if sc["json"] and self.chance(1, 5): params.append("%s->$.a = %s" % (self.pick(sc["json"]), self.pick(["1", '"x"', "null"])))
        if sc["refs"] and self.chance(1, 6): params.append("nullable(%s)" % sc["refs"][-1][0])
        if self.chance(1, 8) and not any(p.startswith("order_by") for p in params): params.append('search("ab")')
        if self.chance(1, 8) and depth == 0:
            fields = ["c: count()"] + (["m: max(%s)" % sc["scalars"][0][0]] if self.chance(1, 2) else [])
            params = [p for p in params if not p.startswith("order_by")]
        head = sub if sub else (("%s: " % self.pick(["p1", "res", "été"]) if self.chance(1, 4) else "") + name)
        return "%s%s{%s%s%s}" % (head, (" (" + ", ".join(params) + ") ") if params else " ", self.sp(), self.sp().join(fields), self.sp())

    def valid_query(self):
        return "query q%d {%s%s%s}" % (self.r.randrange(10**6), self.ws(), self.ws().join(self.vq_entity(self.pick(list(self.SCHEMA))) for _ in range(1 + self.r.randrange(2))), self.ws())

    def vm_entity(self, name, depth=0):
        sc = self.SCHEMA[name]
        fs = []
        for f, t in sc["scalars"]:
            if f in sc["required"] or self.chance(1, 2): fs.append("%s: %s" % (f, self.typed(t)))
        for j in sc["json"]:
            if self.chance(1, 3): fs.append("%s: %s" % (j, self.pick(['"[1]"', '"{\\"a\\":1}"', "$j1"])))
        if depth < 2:
            for f, target in sc["refs"]:
                if self.chance(1, 3):
                    inner = "{%s}" % self.vm_entity(target, depth + 1)
                    fs.append("%s: %s" % (f, ("[%s]" % ", ".join(inner for _ in range(1 + self.r.randrange(2)))) if f == "parents" else inner))
        return self.sp().join(fs)

    def valid_mutation(self):
        name = self.pick(list(self.SCHEMA))
        return "mutate m%d { %s%s {%s%s%s} }" % (self.r.randrange(10**6), ("%s: " % self.pick(["r", "été"])) if self.chance(1, 4) else "", name, self.sp(), self.vm_entity(name), self.sp())

    def valid_deletion(self):
        name = self.pick(["Person", "Pet", "ns.Thing"])
        arr = " parents[$id2]" if name == "Person" and self.chance(1, 3) else ""
        return "delete d%d { %s { $id1%s } }" % (self.r.randrange(10**6), name, arr)

    def valid_data_model(self):
        ents = []
        for n in self.r.sample(["P", "Q", "R"], 1 + self.r.randrange(3)):
            fs = []
            for f in self.r.sample(["a", "b", "c", "d"], 1 + self.r.randrange(3)):
                ty = self.pick(["Integer", "Float", "Boolean", "String", "Base64", "Json"])
                suffix = self.pick(["", " nullable", ""]) if ty not in ("Integer",) else self.pick(["", " nullable", " default 3"])
                fs.append("%s: %s%s" % (f, ty, suffix))
            if self.chance(1, 3): fs.append("other: %s nullable" % n)
            if self.chance(1, 4): fs.append("index(%s)" % fs[0].split(":")[0])
            ents.append("%s%s {%s%s%s}" % ("@deprecated " if self.chance(1, 8) else "", n, self.sp(), (", " + self.sp()).join(fs), self.sp()))
        return "%s {%s%s%s}" % (self.pick(["", "app"]), self.ws(), self.ws().join(ents), self.ws())

    def mutate_text(self, s):
        pool = list("{}()[]:,$\"\\ \n/.-_@<>=!0aZ") + ["é", "名", "\t", "\r", "//", "->", "٣", " ", " "]
        n = 1 + self.r.randrange(3)
        for _ in range(n):
            if not s: break
            i = self.r.randrange(len(s))
            k = self.r.randrange(4)
            if k == 0: s = s[:i] + s[i + 1:]
            elif k == 1: s = s[:i] + self.pick(pool) + s[i:]
            elif k == 2: s = s[:i] + self.pick(pool) + s[i + 1:]
            else:
                j = self.r.randrange(len(s)); a, b = min(i, j), max(i, j)
                s = s[:a] + s[b:]
        return s


def query_product():
    """type-directed product over one entity selection of the live model:
    {plain, aggregate} x {no order, order_by} x {none, first/skip, after, before} x {no filter, field filter, having-filter},
    paging values as literals and as variables; every request is executed on the live instance"""
    out = []
    n = [0]

    def q(entity, params, fields):
        n[0] += 1
        ps = (" (" + ", ".join(params) + ")") if params else ""
        out.append("query qp%d { %s%s { %s } }" % (n[0], entity, ps, " ".join(fields)))

    # (selection, candidate orders [(order_by text, [(literal, variable) per order field])], having filters)
    shapes = [
        ("plain", ["name", "age", "nick"],
         [("name asc", [('"b"', "$s1")]), ("age desc, name asc", [("3", "$i1"), ('"b"', "$s2")]), ("nick asc, name desc", [('"none"', "$s1"), ('"zz"', "$s2")])],
         []),
        ("aggregate", ["name", "c: count()"],
         [("c asc, name asc", [("1", "$i1"), ('"b"', "$s1")]), ("name desc", [('"b"', "$s1")]), ("c desc", [("0", "$i2")])],
         ["c > 0", "c >= $i1"]),
        ("aggregate", ["nick", "m: max(age)", "c: count()"],
         [("c asc, nick asc", [("1", "$i1"), ('"none"', "$s1")]), ("nick asc", [('"a"', "$s2")])],
         ["c != 99"]),
    ]
    field_filters = [None, 'name != "zz"', "age > $i2", 'nick = "none"']
    for kind, fields, orders, havings in shapes:
        for order in [None] + orders:
            pagings = [[], ["first 2"], ["skip 1"], ["first 2", "skip 1"], ["skip $i1"], ["first $i1", "skip $i1"], ["first 2", "skip $i1"]]
            if order is not None:
                vals = order[1]
                for k in range(1, len(vals) + 1):
                    for which in (0, 1):
                        pagings.append(["after(%s)" % ", ".join(v[which] for v in vals[:k])])
                        pagings.append(["before(%s)" % ", ".join(v[which] for v in vals[:k])])
                pagings.append(["first 1", "after(%s)" % vals[0][0]])
            else:
                pagings += [["after(1)"], ["before($i1)"]]       # paging without order: refused by the semantic checks
            filters = [[f] if f else [] for f in field_filters[:2 if order is None else 4]]
            filters += [[h] for h in havings] + ([[havings[0], field_filters[1]]] if havings else [])
            for paging in pagings:
                for flt in filters:
                    params = ([("order_by(%s)" % order[0])] if order else []) + paging + flt
                    q("Person", params, fields)
    return out


def write_cases(path, ops, per_case=40):
    with open(path, "w") as f:
        for i in range(0, len(ops), per_case):
            f.write("case id=%d kind=c14\n" % (i // per_case))
            for o in ops[i:i + per_case]: f.write(o + "\n")


class C14(Cfg):
    prop = "C14"
    prop_module = "DiscretModel.Props.C14"
    lean_targets = ["dmodel_schema"]
    harness_pkg = "dv-schema"
    model_exe = "dmodel_schema"
    design_ref = "DESIGN.md §6 C14, §3.2 T3 T5"
    technique = ("Lean 4 decide-checked finite tables (admission matrix, key import, frame-length sites) + a generic PEG interpreter over grammar "
                 "tables regenerated from the .pest files, tied to pest and to live instances by a correspondence run with a panic hook and a liveness probe")
    level_text = ("Theorems (Lean 4): (1) over the whole admission matrix (6 scalar field types x nullability x 11 value classes x parameter/literal) every value that "
                  "validate_params / the mutation parser admit has a defined binding result, for the intended behaviour; for the code as implemented the matrix has "
                  "exactly two bad cells, (Json, nullable, null) through a parameter and through the literal (C14_breaks_jsonNullPanics), and C14_partial covers the rest; "
                  "(2) import_verifying_key and the signature import are total on every (first byte, length), except that the code as implemented panics on the empty "
                  "string (C14_breaks_emptyKeyPanics); a pool of n plain threads answers after k panicking requests iff k < n; (3) over the grammar tables regenerated from "
                  "the four .pest files: the rule `identifier` accepts SQL keywords and digit-first names that the storage engine refuses as bare aliases (decide-checked "
                  "witnesses over the PEG interpreter); (4) over the table of read_u32() sites regenerated from endpoint.rs every frame length is bounded before it sizes an "
                  "allocation, except the first frame of an accepted connection (C14_frames_partial / C14_breaks_unboundedConnectionInfoFrame). "
                  "Everything else is EXPLORATION supporting these clauses, not proof: the Lean PEG interpreter over the translated grammars is compared with pest on "
                  "grammar-derived and mutated texts for all four grammars (which validates T3 and the interpreter), and every such text, the whole admission matrix, the "
                  "full SQLite keyword list as aliases, key/signature byte strings, invitation and frame bytes are run on live instances / real entry points under a panic "
                  "hook, with a fixed probe query after each input and explicit reader-pool and verifier-pool liveness checks. Absence of panics in 34 kLoC is not provable "
                  "from a model and is not claimed.")
    level_note = ("Theorem clauses: admission matrix, key/signature import totality, pool liveness arithmetic, identifier-vs-keyword witnesses over regenerated grammars, "
                  "frame-length table. Exploration only: everything that executes requests (SQL generation, rusqlite, serde/bincode, threads). Trusted: Lean kernel, the "
                  "hand-written admission/key models, the PEG interpreter's reading of pest semantics (validated by the pest comparison on every run), translators T3/T5 "
                  "(regex/recursive-descent over source text), python's unicodedata for the LETTER/NUMBER classes (pest's tables may differ on recently assigned code points), "
                  "the table of SQLite keywords without identifier fallback (read off the engine, re-validated on every run over the full keyword list). "
                  "The unbounded first frame (endpoint.rs:353) comes from reading and T5 only: it is not replayed against a QUIC peer.")
    trusted_base = [
        "hand-written models lean/DiscretModel/Model/Admission.lean (parameter.rs, mutation_parser.rs, mutation_query.rs, security.rs) tied by the exhaustive matrix run",
        "generic PEG interpreter lean/DiscretModel/Model/Peg.lean (pest semantics: implicit whitespace, atomic rules) tied by the pest comparison",
        "translators T3 translators/t3_grammar.py and T5 translators/t5_frames.py",
        "harness/schema/src/c14.rs: panic hook, probe query, pool liveness checks",
    ]
    assumptions = [
        "Unicode general categories L*/N* of python's unicodedata agree with pest's LETTER/NUMBER on the characters used by the generators",
        "a request that did not return within 10 s is counted as a hang",
        "the Lean PEG interpreter runs with fuel 400+60*len; running out of fuel is reported, never taken as a verdict",
    ]

    def run(self, tier, seed):
        self.translator_problems = run_translators(["t3_grammar", "t5_frames", "t6_consts"])
        if self.translator_problems:
            print("# translator problems: " + "; ".join(self.translator_problems))
        return with_hints(lambda: engine.run(self, tier, seed))

    def replay(self, path):
        return replay_with_hints(self, path)

    def streams(self, tier, seed, work, dv):
        res = []
        # ---- exhaustive finite tables
        ops = []
        for t in "BFXISJ":
            for n in "01":
                for src in ("var", "lit"):
                    for v in ("bool", "int", "float", "nan", "str00", "str01", "str10", "str11", "bin0", "bin1", "null"):
                        ops.append("adm t=%s n=%s src=%s v=%s" % (t, n, src, v))
        for c in ("mut", "filter"):
            for f in ("id", "room_id", "cdate", "mdate", "_entity", "_json", "_binary", "verifying_key", "_signature"):
                for v in ("bool", "int", "float", "nan", "str00", "str01", "str10", "str11", "bin0", "bin1", "null"):
                    ops.append("sysadm c=%s f=%s v=%s" % (c, f, v))
        for first in ("-", "0", "1", "2", "255"):
            for ln in (0, 1, 2, 32, 33, 34, 64):
                if (first == "-") == (ln == 0): ops.append("key first=%s len=%d" % (first, ln))
        for ln in (0, 1, 63, 64, 65, 128): ops.append("sig len=%d" % ln)
        for n in (1, 2, 3):
            for k in range(0, n + 2): ops.append("vpool n=%d k=%d" % (n, k))
        for n in (1, 2, 4):
            for k in (0, n - 1, n, n + 1):
                if k >= 0: ops.append("rpool n=%d k=%d" % (n, k))
        p = os.path.join(work, "matrix.ops"); write_cases(p, ops, 60)
        res.append(("matrix (exhaustive admission/key/pool tables)", p, True))
        ops = ["alias a=" + hx(k) for k in SQLITE_KEYWORDS]
        ops += ["alias a=" + hx(k.upper()) for k in SQLITE_KEYWORDS[::7]]
        ops += ["alias a=" + hx(a) for a in ["x", "_x", "x1", "1x", "9", "été", "名前", "٣x", "x٣", "a b", "", "a-b", "a.b", "$a", "GROUP", "Group1", "_1"]]
        p = os.path.join(work, "alias.ops"); write_cases(p, ops, 60)
        res.append(("alias (all SQLite keywords and identifier shapes)", p, True))
        ops = ["req k=query s=" + hx(t) for t in query_product()]
        p = os.path.join(work, "qproduct.ops"); write_cases(p, ops, 80)
        res.append(("query product (plain/aggregate x order x paging x filter), n=%d" % len(ops), p, True))
        # ---- grammar-derived and mutated texts
        n = 700 if tier == "quick" else 60000
        rnd = random.Random(seed * 7919 + 14)
        g = Gen(rnd)
        ops = []
        makers = [("dataModel", g.data_model), ("query", g.query), ("mutation", g.mutation), ("deletion", g.deletion),
                  ("query", g.valid_query), ("query", g.valid_query), ("mutation", g.valid_mutation), ("mutation", g.valid_mutation),
                  ("query", g.valid_query), ("deletion", g.valid_deletion), ("dataModel", g.valid_data_model), ("mutation", g.valid_mutation)]
        for i in range(n):
            k, mk = makers[i % len(makers)]
            s = mk()
            if rnd.randrange(5) == 0: s = g.mutate_text(s)
            ops.append("req k=%s s=%s" % (k, hx(s)))
        lex = [("identifier", IDENT_POOL + ["", "a b", "a-b", "a.b", "é1", "_", "__", "0", "٣", "²", "Ⅳ", "á"]),
               ("namespace_entity", ["a.b", "sys.Room", "a..b", ".a", "a.", "été.名", "a b"]),
               ("string", ['"a"', '"', '"a\\"', '"\\u00e9"', '"\\u00"', '"\\x"', '"a\nb"', '""', '"a" b']),
               ("float", ["1.5", "1.", ".5", "-0.0", "01.5", "1e5", "1.e5", "1.5e", "1.5E+3", "--1.5"]),
               ("integer", ["0", "-0", "007", "-", "1x", "٣"]), ("boolean", ["true", "TRUE", "False", "tru", "truex"])]
        for gname in ("dataModel", "query", "mutation"):
            for rule, samples in lex:
                for s in samples: ops.append("peg g=%s r=%s s=%s" % (gname, rule, hx(s)))
        for rule, samples in (("identifier", IDENT_POOL), ("variable", ["$a", "$", "$1", "a", "$é", "$a b"])):
            for s in samples: ops.append("peg g=deletion r=%s s=%s" % (rule, hx(s)))
        p = os.path.join(work, "grammar.ops"); write_cases(p, ops, 50)
        res.append(("grammar-derived and mutated texts seed=%d n=%d" % (seed, n), p, False))
        # ---- bytes
        ops = []
        m = 150 if tier == "quick" else 15000
        for i in range(m):
            ln = rnd.choice([0, 1, 2, 3, 4, 8, 9, 16, 17, 33, 64, 100])
            b = bytes(rnd.randrange(256) if rnd.randrange(3) else rnd.choice([0, 1, 255]) for _ in range(ln))
            if i % 3 == 0: ops.append("invite b=%s" % b.hex())
            else: ops.append("frame t=%s b=%s" % (rnd.choice(["Query", "Answer", "Invite", "Node"]), b.hex()))
        p = os.path.join(work, "bytes.ops"); write_cases(p, ops, 75)
        res.append(("random / truncated frames and invitations seed=%d n=%d" % (seed, m), p, False))
        return res

    def nontrivial(self, ops, outs):
        return any(o in ("accept", "bound:stored", "ok", "alive") or o.startswith("m ") for o in outs)

    def oracle(self, ops, outs):
        """Most of the C14 oracle lives in the harness (panic counter, probe, pool liveness: `<out>.oracle`).
        Here: observation lines that must never appear."""
        res = []
        for op, out in zip(ops[1:], outs[1:]):
            if out in ("bad-op", "no-instance"):
                res.append(("malformed", "%s for %s" % (out, op[:80])))
            elif out == "hang":
                res.append(("wedge", "no answer within the time limit: " + op[:80]))
            elif out == "fuel":
                res.append(("malformed", "model ran out of fuel: " + op[:80]))
            elif out == "panic" and not op.startswith("key first=- "):
                res.append(("panic", "panic observed for " + op[:80]))
        seen, uniq = set(), []
        for s, d in res:
            if s not in seen:
                seen.add(s); uniq.append((s, d))
        return uniq


CHECK = C14()
