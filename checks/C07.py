"""C07 — a room definition accepted from a peer only adds entitled entries."""
import os
from . import lib
from .engine import Cfg
from .C02 import kv, rows, block_ddmin

LABEL = {"admins": (100, 32), "rights": (101, 33), "users": (101, 34), "uadmins": (101, 35)}
ENTKIND = {"admins": 102, "rights": 103, "users": 102, "uadmins": 102}


def ints(a, k):
    v = a.get(k, "")
    return [int(x) for x in v.split(",") if x]


class Spec:
    """the room as the statement sees it: ordered lists of accepted entries, decisions computed from them.
    An entry is (id, author, date, body); the entry in force for a key (entity) at d has the greatest
    date <= d, the later accepted among equal dates."""

    def __init__(self, row):
        self.row = row
        self.admins = []
        self.groups = {}         # gid -> {"row":…, "users":[], "uadmins":[], "rights":[]}

    @staticmethod
    def in_force(entries, pick, d):
        best = None
        for e in entries:
            if pick(e[3]) and e[2] <= d and (best is None or e[2] >= best[2]): best = e
        return best

    def enabled(self, entries, k, d):
        e = self.in_force(entries, lambda b: b[0] == "user" and b[1] == k, d)
        return bool(e and e[3][2])

    def is_admin(self, k, d):
        return self.enabled(self.admins, k, d)

    def can_admin_users(self, g, k, d):
        return self.enabled(self.groups[g]["uadmins"], k, d)

    def can(self, k, ent, d, all_):
        adm = self.is_admin(k, d)
        for g in self.groups.values():
            if not (adm or self.enabled(g["users"], k, d) or self.enabled(g["uadmins"], k, d)): continue
            r = self.in_force(g["rights"], lambda b: b[0] == "right" and b[1] == ent, d) or \
                self.in_force(g["rights"], lambda b: b[0] == "right" and b[1] == 0, d)
            if not r: continue
            ms, ma = (r[3][2] or r[3][3]), r[3][3]
            if (ma if all_ else ms): return True
        return False

    def matrix(self, dates):
        out = []
        for d in dates:
            for k in range(6):
                valid = self.is_admin(k, d) or any(self.enabled(g["users"], k, d) or self.enabled(g["uadmins"], k, d)
                                                   for g in self.groups.values())
                ua = any(self.enabled(g["uadmins"], k, d) for g in self.groups.values())
                bits = [self.is_admin(k, d), valid, ua]
                for e in (1, 2, 3): bits += [self.can(k, e, d, False), self.can(k, e, d, True)]
                out.append("%d:%d:%s" % (d, k, "".join("1" if b else "0" for b in bits)))
        return ",".join(out)

    def clone(self):
        s = Spec(self.row)
        s.admins = list(self.admins)
        s.groups = {g: {"row": v["row"], "users": list(v["users"]), "uadmins": list(v["uadmins"]), "rights": list(v["rights"])}
                    for g, v in self.groups.items()}
        return s


def add_sorted(lst, e):
    """accepted entries are kept in date order; a new entry goes after the entries of the same date"""
    i = len(lst)
    while i > 0 and lst[i - 1][2] > e[2]: i -= 1
    lst.insert(i, e)


class C07(Cfg):
    prop = "C07"
    prop_module = "DiscretModel.Props.C07"
    lean_targets = ["dmodel_ingest"]
    harness_pkg = "dv-ingest"
    model_exe = "dmodel_ingest"
    design_ref = "DESIGN.md §6 C07, App. A.8"
    technique = ("Lean 4 theorems over a literal model of room_node.rs (check_consistency, prepare_new_room, prepare_room_with_history, "
                 "prepare_auth_with_history, prepare_new_auth, parse, read, write) + correspondence run against the real "
                 "verify_room_node/add_room_node with really signed candidates + independent oracle on decisions and stored rows")
    level_text = ("Theorems (Lean 4, any stored state, any candidate, no size bound) about a literal model of the acceptance of a room definition from a peer: "
                  "the merge is monotone (every stored entry and placing reference is in the accepted definition, unchanged), every entry that is new to a list "
                  "passed the entitlement test of its list (admin at the entry's date in the room as extended by the earlier new admin entries; admin or user admin of the "
                  "group for users), a room not seen before is accepted only if every entry's author is an admin at the entry's date in the room parsed from the whole "
                  "candidate, a refused candidate changes nothing; the decisions clause is a theorem too (C07_decisions_past: at every date before the earliest new entry every decision "
                  "of the installed room is the stored room's; C07_decisions_exact: decisions are a function of the set of entries) under the hypothesis that equal key and date mean "
                  "equal payload, which is exactly what the same-date-reorder witness violates. For the code as written the statement 'authored for that room and that place' is refuted by "
                  "decide-checked witnesses about explicit switch values (placing references only signature-checked: cross-list, cross-room and whole-group replay; room row replaced unchecked; user-admin entries of a "
                  "new group unchecked; same-date entries re-ordered) and proved under an explicit guard. The model is tied to /repo by running the real services and the "
                  "compiled model on structured adversarial candidates and diffing verdicts, decision matrices of the loaded room and stored rows.")
    level_note = ("Trusted: Lean kernel (+propext, Classical.choice, Quot.sound), the hand-written model and harness, SQLite, Ed25519/blake3. "
                  "Modelled and exercised: room_node.rs, authorisation_service.rs prepare_room_node / RoomNodeAdd / RoomNodeWrite, signature_verification_service.rs room_check. "
                  "Not covered: the room change log, events, peers of the room.")
    trusted_base = [
        "hand-written model lean/DiscretModel/Model/RoomNode.lean (+ Model/Room.lean), tied by the correspondence run (dv-ingest vs dmodel_ingest)",
        "harness/ingest: builds and signs candidate definitions from a pool of rows and references with harness-held keys; calls verify_room_node + add_room_node; "
        "reads the loaded room through the VerifGetRoom hook and the stored one through get_room_node",
        "idealised signatures in the model (`sigOk` is the verdict of the real verify())",
    ]
    assumptions = [
        "the JSON of an entry is one of the shapes the harness builds (user, right, name, absent); other JSON is covered by C14",
        "SQLite returns the references of a row in primary-key order (src,label,dest) and the row with the lowest date for a duplicated (id, entity)",
    ]

    def run(self, tier, seed):
        from . import engine
        saved = lib.ddmin
        lib.ddmin = block_ddmin
        try:
            return engine.run(self, tier, seed)
        finally:
            lib.ddmin = saved

    def streams(self, tier, seed, work, dv):
        n = 250 if tier == "quick" else 4000
        path = os.path.join(work, "random.ops")
        lib.sh([dv, "gen", "--prop", "C07", "--seed", str(seed), "--n", str(n), "--out", path], check=True)
        return [("random seed=%d n=%d" % (seed, n), path, False)]

    def nontrivial(self, ops, outs):
        return sum(1 for o, r in zip(ops, outs) if o.startswith("install ") and r == "ok") >= 2

    # ------------------------------------------------------------------ oracle
    def oracle(self, ops, outs):
        res = []
        fail = lambda sig, d: res.append((sig, d))
        rowpool, edgepool = {}, {}
        cands = {}               # room -> candidate dict
        specs = {}               # room -> Spec
        placed = {}              # row id -> set of (owner, label) it is stored under (any room)
        last_dump, last_probe = None, {}
        pending_refused = None
        tainted = {}             # room -> signature of an accepted placing defect (the stored lists no longer match the accepted ones)
        accepted_edges = set()   # placing references that came in through an accepted definition
        for op, out in zip(ops[1:], outs[1:]):
            k, a = kv(op)
            if out == "bad-op":
                break      # an op file that is not well-formed (e.g. over-shrunk): nothing to judge from here on
            if out == "panic":
                fail("panic", "%s -> the authorisation service panicked" % op); break
            g = lambda x: int(a[x])
            if k == "srow":
                b = a["body"]
                body = ("user", g("k"), a["en"] == "1") if b == "user" else \
                       ("right", g("e"), a["ms"] == "1", a["ma"] == "1") if b == "right" else \
                       ("name", g("v")) if b == "name" else ("none",)
                rowpool[int(a.get("p", a["id"]))] = {"id": g("id"), "ent": g("ent"), "c": g("c"), "m": g("m"), "by": g("by"), "body": body,
                                    "sig": a.get("sig", "1") == "1"}
            elif k == "sedge":
                edgepool[g("n")] = {"src": g("src"), "se": g("se"), "l": g("l"), "dst": g("dst"), "c": g("c"), "by": g("by"),
                                    "sig": a.get("sig", "1") == "1"}
            elif k == "cand":
                try:
                    cands[g("room")] = {"row": dict(rowpool[g("room")]),
                                        "admins": [dict(rowpool[i]) for i in ints(a, "admins")],
                                        "aedges": [dict(edgepool[i]) for i in ints(a, "aedges")],
                                        "auths": [{"row": dict(rowpool[i]), "rights": [], "redges": [], "users": [], "uedges": [],
                                                   "uadmins": [], "uaedges": []} for i in ints(a, "auths")],
                                        "authedges": [dict(edgepool[i]) for i in ints(a, "authedges")]}
                except KeyError:
                    fail("malformed", op); break
            elif k == "cauth":
                c = cands.get(g("room"))
                if c is None: fail("malformed", op); break
                for au in c["auths"]:
                    if au["row"]["id"] == g("id"):
                        for lst, ek in (("rights", "redges"), ("users", "uedges"), ("uadmins", "uaedges")):
                            au[lst] = [dict(rowpool[i]) for i in ints(a, lst)]
                            au[ek] = [dict(edgepool[i]) for i in ints(a, ek)]
            elif k == "install":
                room = g("room")
                c = cands.get(room)
                if c is None: fail("malformed", op); break
                if out == "ok":
                    n0 = len(res)
                    # references from a row of this definition that no accepted definition carried: they were
                    # put there by data synchronisation (C02 #21) and are about to be merged as "stored" ones
                    if last_dump is not None and room in specs:
                        owners = set([room]) | set(specs[room].groups.keys())
                        for e in last_dump[1]:
                            if e[0] in owners and e[2] in (32, 33, 34, 35) and e not in accepted_edges:
                                tainted.setdefault(room, "definition-polluted-by-ingested-reference")
                                fail("definition-polluted-by-ingested-reference",
                                     "reference %s from a row of room %d was never part of an accepted definition; the merge treats it as stored" % (e, room))
                                break
                    for lst in [c["aedges"], c["authedges"]] + [au[k2] for au in c["auths"] for k2 in ("redges", "uedges", "uaedges")]:
                        for e in lst: accepted_edges.add((e["src"], e["se"], e["l"], e["dst"], e["c"], e["by"]))
                    was_tainted = tainted.get(room)
                    self._accepted(fail, specs, placed, room, c)
                    if was_tainted:
                        # the stored lists already differ from the accepted ones (an accepted placing defect):
                        # what follows from that is reported under the same signature
                        for i in range(n0, len(res)):
                            if res[i][0] in ("entry-altered", "entry-by-unentitled-author"):
                                res[i] = (was_tainted, res[i][1] + " (follow-up of an accepted placing defect)")
                    if any(sig == "duplicate-entry-id" for sig, _ in res[n0:]):
                        for i in range(n0, len(res)):
                            if res[i][0] == "entry-altered":
                                res[i] = ("duplicate-entry-id", res[i][1] + " (second row with the id of a stored entry)")
                    for sig, _ in res[n0:]:
                        if sig in ("placing-reference-label", "replayed-entry", "placing-reference-author", "duplicate-entry-id"):
                            tainted.setdefault(room, sig)
                    pending_refused = None
                elif out.startswith("err:"):
                    pending_refused = (room, op)
                else:
                    fail("malformed", out); break
            elif k == "dump":
                if not out.startswith("dump "): fail("malformed", out[:80]); break
                d = dict(x.split("=", 1) for x in out.split()[1:])
                cur = (rows(d.get("N", "")), rows(d.get("E", "")))
                if pending_refused and last_dump is not None and cur != last_dump:
                    fail("refused-candidate-left-trace", "tables changed although %s was refused" % pending_refused[1])
                if last_dump is not None and not pending_refused:
                    self._stored_monotone(fail, specs, last_dump, cur)
                    for room, sp in specs.items():
                        bad = getattr(sp, "row_unentitled", None)
                        if bad is None: continue
                        sp.row_unentitled = None
                        was = [r for r in last_dump[0] if r[0] == room]
                        now = [r for r in cur[0] if r[0] == room]
                        if was and now != was and (room, None, bad["ent"], bad["c"], bad["m"], bad["by"]) in [r[:6] for r in now]:
                            tainted.setdefault(room, "room-row-replaced")
                            fail("room-row-replaced", "the stored room row %s was replaced by %s: not a newer sys.Room row signed by an admin" % (was[0], now[0]))
                            sp.row = bad
                last_dump = cur
            elif k == "probe":
                room = g("room")
                if not out.startswith("probe live="): fail("malformed", out[:80]); break
                live = out.split()[1][5:]
                dates = [int(x) for x in a["dates"].split(",") if x]
                if pending_refused and pending_refused[0] == room and room in last_probe and live != last_probe[room]:
                    fail("refused-candidate-left-trace", "decisions changed although %s was refused" % pending_refused[1])
                if room in specs:
                    want = specs[room].matrix(dates)
                    if live != want:
                        sig = tainted.get(room) or ("same-date-reorder" if self._has_ties(specs[room]) else "decisions-differ")
                        fail(sig, "loaded room differs from old entries + entitled new entries%s: %s" % (
                            " (follow-up of an accepted placing defect)" if room in tainted else "", self._first_diff(live, want)))
                elif live != "none":
                    fail("decisions-differ", "a room that was never accepted is loaded")
                last_probe[room] = live
            elif k in ("node", "edge", "ndel", "edel"):
                if out != "q": fail("malformed", "%s -> %s" % (op, out)); break
            elif k == "sync":
                t = out.split()
                if len(t) != 8 or t[0] != "sync": fail("malformed", out[:80]); break
                d = dict(x.split("=", 1) for x in t[1:])
                last_dump = (rows(d.get("N", "")), rows(d.get("E", "")))
                pending_refused = None
            elif k in ("case", ""):
                pass
            else:
                fail("malformed", op); break
        return res

    @staticmethod
    def _first_diff(a, b):
        xa, xb = a.split(","), b.split(",")
        for i in range(min(len(xa), len(xb))):
            if xa[i] != xb[i]: return "%s (loaded) vs %s (expected)" % (xa[i], xb[i])
        return "lengths %d/%d" % (len(xa), len(xb))

    @staticmethod
    def _has_ties(spec):
        def ties(entries):
            seen = set()
            for e in entries:
                key = (e[3][:2], e[2])
                if key in seen: return True
                seen.add(key)
            return False
        return ties(spec.admins) or any(ties(g[l]) for g in spec.groups.values() for l in ("users", "uadmins", "rights"))

    def _stored_monotone(self, fail, specs, before, after):
        bn = {r[0]: r for r in before[0]}
        an = {}
        for r in after[0]: an.setdefault(r[0], []).append(r)
        for id_, r in bn.items():
            if r[2] in (102, 103) and r not in an.get(id_, []):
                fail("stored-entry-altered", "entry row %s is not in _node any more" % (r,))
        for e in before[1]:
            if e[1] in (100, 101) and e not in after[1]:
                if not [x for x in after[1] if (x[0], x[2], x[3]) == (e[0], e[2], e[3])]:
                    fail("stored-reference-removed", "placing reference %s disappeared" % (e,))

    def _entry(self, r):
        return (r["id"], r["by"], r["m"], r["body"])

    def _placing(self, fail, placed, owner, lst, edges, r, spec_admin):
        """the reference that places entry r in list `lst` of `owner`"""
        oent, lab = LABEL[lst]
        es = [e for e in edges if e["dst"] == r["id"]]
        good = [e for e in es if e["src"] == owner and e["l"] == lab and e["se"] == oent]
        before = placed.get(r["id"], set())
        if before and (owner, lab) not in before:
            fail("replayed-entry", "entry %d, stored under %s, is now also accepted in list %s of %d" % (r["id"], sorted(before), lst, owner))
        elif not good:
            fail("placing-reference-label", "entry %d is accepted in list %s of %d without a reference carrying that label and source entity" % (r["id"], lst, owner))
        elif not [e for e in good if e["by"] == r["by"] or spec_admin(e["by"], e["c"])]:
            fail("placing-reference-author", "entry %d is placed in list %s of %d by a reference of key %d, who is neither its author nor an admin" % (r["id"], lst, owner, good[0]["by"]))
        placed.setdefault(r["id"], set()).add((owner, lab))

    def _group_placing(self, fail, placed, room, au, edges, spec_admin):
        """the reference that attaches a group that is new to `room`: it must start at the room row with the
        groups' label and be signed by an admin at its date (a group row is re-signed on every update of the
        group, so the reference cannot be tied to the row's author)"""
        gid = au["row"]["id"]
        good = [e for e in edges if e["dst"] == gid and e["src"] == room and e["l"] == 33 and e["se"] == 100]
        by_admin = [e for e in good if spec_admin(e["by"], e["c"])]
        before = placed.get(gid, set())
        if before and (room, 33) not in before and not by_admin:
            fail("replayed-entry", "group %d, stored under %s, is now also accepted in room %d by a reference that no admin signed" % (gid, sorted(before), room))
        elif not good:
            fail("placing-reference-label", "group %d is accepted in room %d without a reference carrying the groups' label and the room entity" % (gid, room))
        elif not by_admin:
            fail("placing-reference-author", "group %d is attached to room %d by a reference of key %d, who is no admin at its date" % (gid, room, good[0]["by"]))
        placed.setdefault(gid, set()).add((room, 33))

    def _accepted(self, fail, specs, placed, room, c):
        # two rows with one id in a list: only the first is compared with the stored entry, and a row whose id
        # is stored is never judged as a new entry
        def dup(lst, where):
            seen = {}
            for r in lst:
                if r["id"] in seen and seen[r["id"]] != self._entry(r):
                    fail("duplicate-entry-id", "list %s carries two different rows with id %d (authors %d and %d); the definition was accepted" % (
                        where, r["id"], seen[r["id"]][1], r["by"]))
                    return
                seen.setdefault(r["id"], self._entry(r))
        dup(c["admins"], "admins of %d" % room)
        for au in c["auths"]:
            for lst in ("rights", "users", "uadmins"): dup(au[lst], "%s of group %d" % (lst, au["row"]["id"]))
        new_room = room not in specs
        old = specs.get(room)
        spec = Spec(c["row"]) if new_room else old.clone()
        byd = lambda l: sorted(l, key=lambda r: r["m"])
        known = lambda entries, r: any(e[0] == r["id"] for e in entries)
        if new_room:
            # the whole history must replay: every author an admin at the entry's date in the room parsed from the candidate
            for r in c["admins"]: spec.admins.append(self._entry(r))
            for au in c["auths"]:
                spec.groups[au["row"]["id"]] = {"row": au["row"], "users": [self._entry(r) for r in au["users"]],
                                                "uadmins": [self._entry(r) for r in au["uadmins"]],
                                                "rights": [self._entry(r) for r in au["rights"]]}
            adm = lambda k, d: spec.is_admin(k, d)
            for r in c["admins"]:
                if not adm(r["by"], r["m"]): fail("entry-by-unentitled-author", "new room: admin entry %d by key %d" % (r["id"], r["by"]))
                self._placing(fail, placed, room, "admins", c["aedges"], r, adm)
            for au in c["auths"]:
                gid = au["row"]["id"]
                if not adm(au["row"]["by"], au["row"]["m"]): fail("entry-by-unentitled-author", "new room: group %d by key %d" % (gid, au["row"]["by"]))
                self._group_placing(fail, placed, room, au, c["authedges"], adm)
                for lst, ek in (("rights", "redges"), ("users", "uedges"), ("uadmins", "uaedges")):
                    for r in au[lst]:
                        ok = adm(r["by"], r["m"]) or (lst == "users" and spec.can_admin_users(gid, r["by"], r["m"]))
                        if not ok: fail("entry-by-unentitled-author", "new room: %s entry %d by key %d" % (lst, r["id"], r["by"]))
                        self._placing(fail, placed, gid, lst, au[ek], r, adm)
            specs[room] = spec
            return
        adm = lambda k, d: spec.is_admin(k, d)
        # existing entries may not be altered
        def altered(entries, lst):
            for r in lst:
                for e in entries:
                    if e[0] == r["id"] and e != self._entry(r):
                        fail("entry-altered", "entry %d accepted with another content" % r["id"])
        altered(old.admins, c["admins"])
        # the room row
        if c["row"] != old.row:
            nr = c["row"]
            if not (nr["m"] > old.row["m"] and nr["ent"] == 100 and adm(nr["by"], nr["m"])):
                # only matters if the candidate was written (something new); judged below once we know
                row_changed = True
            else:
                row_changed = False; spec.row = nr
        else:
            row_changed = False
        something_new = False
        for r in byd(c["admins"]):
            if known(old.admins, r): continue
            something_new = True
            if not adm(r["by"], r["m"]): fail("entry-by-unentitled-author", "admin entry %d by key %d at %d" % (r["id"], r["by"], r["m"]))
            self._placing(fail, placed, room, "admins", c["aedges"], r, adm)
            add_sorted(spec.admins, self._entry(r))
        for au in c["auths"]:
            gid = au["row"]["id"]
            if gid in old.groups:
                grp = spec.groups[gid]
                if au["row"] != old.groups[gid]["row"] and au["row"]["m"] > old.groups[gid]["row"]["m"]:
                    something_new = True
                    if not adm(au["row"]["by"], au["row"]["m"]): fail("entry-by-unentitled-author", "newer group row %d by key %d" % (gid, au["row"]["by"]))
                    grp["row"] = au["row"]
                for lst in ("uadmins", "users", "rights"): altered(old.groups[gid][lst], au[lst])
                for lst, ek in (("uadmins", "uaedges"), ("users", "uedges"), ("rights", "redges")):
                    for r in byd(au[lst]):
                        if known(old.groups[gid][lst], r): continue
                        something_new = True
                        ok = adm(r["by"], r["m"]) or (lst == "users" and spec.can_admin_users(gid, r["by"], r["m"]))
                        if not ok: fail("entry-by-unentitled-author", "%s entry %d of group %d by key %d at %d" % (lst, r["id"], gid, r["by"], r["m"]))
                        self._placing(fail, placed, gid, lst, au[ek], r, adm)
                        add_sorted(grp[lst], self._entry(r))
            else:
                something_new = True
                if not adm(au["row"]["by"], au["row"]["m"]): fail("entry-by-unentitled-author", "new group %d by key %d" % (gid, au["row"]["by"]))
                self._group_placing(fail, placed, room, au, c["authedges"], adm)
                grp = {"row": au["row"], "users": [], "uadmins": [], "rights": []}
                spec.groups[gid] = grp
                for lst, ek in (("uadmins", "uaedges"), ("users", "uedges"), ("rights", "redges")):
                    for r in byd(au[lst]):
                        if lst == "uadmins" and not adm(r["by"], r["m"]):
                            fail("new-group-useradmin-unchecked", "user-admin entry %d of the new group %d is signed by key %d, who is no admin" % (r["id"], gid, r["by"]))
                        elif lst != "uadmins":
                            ok = adm(r["by"], r["m"]) or (lst == "users" and spec.enabled(grp["uadmins"], r["by"], r["m"]))
                            if not ok: fail("entry-by-unentitled-author", "%s entry %d of new group %d by key %d" % (lst, r["id"], gid, r["by"]))
                        self._placing(fail, placed, gid, lst, au[ek], r, adm)
                        add_sorted(grp[lst], self._entry(r))
        if something_new:
            # whether the candidate's room row was entitled to replace the stored one; judged on the next table dump
            spec.row_unentitled = c["row"] if row_changed else None
            specs[room] = spec


CHECK = C07()
