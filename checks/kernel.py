"""Obligations regenerated from source that are shared by several properties.

T7 (translators/t7_room_kernel.py) re-translates the decision kernel of src/database/room.rs into
lean/DiscretModel/Gen/RoomKernel.lean on every run of the six room properties; the equalities of
lean/DiscretModel/Lemmas/RoomKernelEq.lean (regenerated function = hand-written model function) are
proof obligations of each of them."""
import os, re, sys
from . import lib

sys.path.insert(0, os.path.join(lib.ROOT, "translators"))

ROOM_PROPS = {"C01", "C02", "C07", "C08", "C10", "C12"}
ROOM_MODULES = ["DiscretModel.Lemmas.RoomKernelEq"]
# T9: the last-writer-wins decision of Node::filter_existing (translators/t9_lww.py -> Gen/Lww.lean, Lemmas/LwwEq.lean)
LWW_PROPS = {"C02", "C03", "C11", "C12"}
LWW_MODULES = ["DiscretModel.Lemmas.LwwEq"]
# T8: validate_node / validate_node_deletions / validate_edge_deletions (translators/t8_ingest_kernel.py -> Gen/IngestKernel.lean)
INGEST_PROPS = {"C02", "C12"}
INGEST_MODULES = ["DiscretModel.Lemmas.IngestKernelEq"]
# T10: the order close < drain < cleanup at the end of LocalPeerService::start (translators/t10_conn_close.py)
# T12: the decision of validate_deletion (translators/t12_deletion_kernel.py -> Gen/DeletionKernel.lean, Lemmas/DeletionKernelEq.lean)
DELETION_PROPS = {"C01", "C12"}
DELETION_MODULES = ["DiscretModel.Lemmas.DeletionKernelEq"]
CONN_PROPS = {"C20"}
CONN_MODULES = ["DiscretModel.Lemmas.ConnCloseEq"]


# T11: prepare_new_room / prepare_new_auth / groups_placed_by_admins (translators/t11_roomnode_kernel.py -> Gen/RoomNodeKernel.lean)
ROOMNODE_PROPS = {"C07", "C10"}
ROOMNODE_MODULES = ["DiscretModel.Lemmas.RoomNodeKernelEq"]


def repo_under_test():
    """the source tree the harness is built against (a mutation run points the harness at a copy)"""
    try:
        txt = open(os.path.join(lib.HARNESS, "Cargo.toml")).read()
        m = re.search(r'discret\s*=\s*\{\s*path\s*=\s*"([^"]+)"', txt)
        if m: return m.group(1)
    except OSError:
        pass
    return lib.REPO


def extra_modules(prop):
    return (list(ROOM_MODULES) if prop in ROOM_PROPS else []) + (list(LWW_MODULES) if prop in LWW_PROPS else []) \
        + (list(INGEST_MODULES) if prop in INGEST_PROPS else []) + (list(ROOMNODE_MODULES) if prop in ROOMNODE_PROPS else []) + (list(CONN_MODULES) if prop in CONN_PROPS else []) \
        + (list(DELETION_MODULES) if prop in DELETION_PROPS else [])


def pre_build(prop):
    """runs the translators this property depends on; returns a list of problems (strings).
    A translator that cannot read its source writes a Gen file that does not compile, so that the
    obligations depending on it are reported broken instead of being checked against a stale file."""
    problems = []
    if prop in ROOM_PROPS:
        import common, t7_room_kernel
        repo = repo_under_test()
        try:
            t7_room_kernel.main(repo)
        except Exception as e:
            problems.append("T7 (room.rs -> Gen/RoomKernel.lean): %s" % e)
            common.write_if_changed("RoomKernel.lean",
                                    "/-! translator T7 FAILED on %s: %s -/\nexample : False := by decide\n" % (
                                        repo, str(e).replace("-/", "- /")))
    if prop in INGEST_PROPS:
        import common, t8_ingest_kernel
        repo = repo_under_test()
        try:
            t8_ingest_kernel.main(repo)
        except Exception as e:
            problems.append("T8 (authorisation_service.rs validators -> Gen/IngestKernel.lean): %s" % e)
            common.write_if_changed("IngestKernel.lean",
                                    "/-! translator T8 FAILED on %s: %s -/\nexample : False := by decide\n" % (
                                        repo, str(e).replace("-/", "- /")))
    if prop in DELETION_PROPS:
        import common, t12_deletion_kernel
        repo = repo_under_test()
        try:
            t12_deletion_kernel.main(repo)
        except Exception as e:
            problems.append("T12 (authorisation_service.rs validate_deletion -> Gen/DeletionKernel.lean): %s" % e)
            common.write_if_changed("DeletionKernel.lean",
                                    "/-! translator T12 FAILED on %s: %s -/\nexample : False := by decide\n" % (
                                        repo, str(e).replace("-/", "- /")))
    if prop in CONN_PROPS:
        import common, t10_conn_close
        repo = repo_under_test()
        try:
            t10_conn_close.main(repo)
        except Exception as e:
            problems.append("T10 (peer_inbound_service.rs end of start -> Gen/ConnClose.lean): %s" % e)
            common.write_if_changed("ConnClose.lean",
                                    "/-! translator T10 FAILED on %s: %s -/\nexample : False := by decide\n" % (
                                        repo, str(e).replace("-/", "- /")))
    if prop in ROOMNODE_PROPS:
        import common, t11_roomnode_kernel
        repo = repo_under_test()
        try:
            t11_roomnode_kernel.main(repo)
        except Exception as e:
            problems.append("T11 (room_node.rs entitlement checks -> Gen/RoomNodeKernel.lean): %s" % e)
            common.write_if_changed("RoomNodeKernel.lean",
                                    "/-! translator T11 FAILED on %s: %s -/\nexample : False := by decide\n" % (
                                        repo, str(e).replace("-/", "- /")))
    if prop in LWW_PROPS:
        import common, t9_lww
        repo = repo_under_test()
        try:
            t9_lww.main(repo)
        except Exception as e:
            problems.append("T9 (node.rs filter_existing -> Gen/Lww.lean): %s" % e)
            common.write_if_changed("Lww.lean",
                                    "/-! translator T9 FAILED on %s: %s -/\nexample : False := by decide\n" % (
                                        repo, str(e).replace("-/", "- /")))
    return problems


def trusted(prop):
    res = []
    if prop in CONN_PROPS:
        res.append("translator T10 translators/t10_conn_close.py (regex level): order of close / drain / cleanup at the end of "
                   "LocalPeerService::start, decided by Lemmas/ConnCloseEq.lean; ties the `close` step of Model/LockConn.lean to the source")
    if prop in DELETION_PROPS:
        res.append("translator T12 translators/t12_deletion_kernel.py: the decision of RoomAuthorisations::validate_deletion read statement by "
                   "statement (signing of the re-dated rows read as the identity, construction/push of the deletion records as no-ops, any other "
                   "unknown statement refused); structures Model/DeletionKernelTypes.lean (fields checked against the Rust structs on every run; "
                   "short and full entity names are different types); Lemmas/DeletionKernelEq.lean ties it to LocalWrite.deleteNode / deleteRef / "
                   "deleteRoomAdminRef for Defects.asImplemented")
    if prop in INGEST_PROPS:
        res.append("translator T8 translators/t8_ingest_kernel.py: validate_node, validate_node_deletions, validate_edge_deletions of "
                   "authorisation_service.rs read statement by statement; structures Model/IngestKernelTypes.lean (fields checked against the "
                   "Rust structs on every run); Lemmas/IngestKernelEq.lean ties them to Ingest.validateNode / nodeDelAccepted / edgeDelAccepted")
    if prop in ROOMNODE_PROPS:
        res.append("translator T11 translators/t11_roomnode_kernel.py: prepare_new_room, prepare_new_auth, groups_placed_by_admins of room_node.rs "
                   "read statement by statement (`x.parse()?` is a parameter, not re-translated); structures Model/RoomNodeKernelTypes.lean (fields "
                   "checked against the Rust structs on every run, no other field may be read); Lemmas/RoomNodeKernelEq.lean ties them to "
                   "RoomNode.prepareNewRoom / prepareNewAuth / groupsPlacedByAdmins under the abstraction absRoom / absAuth (author and date of every row "
                   "and of the references room -> group)")
    if prop in LWW_PROPS:
        res.append("translator T9 translators/t9_lww.py: the if-chain of Node::filter_existing read by rustmini.py; Lemmas/LwwEq.lean ties it to "
                   "Ingest.filterOne and Sync.wanted (signatures compared as their byte-order rank)")
    if prop in ROOM_PROPS:
        return res + ["translator T7 translators/t7_room_kernel.py + rustmini.py (reading of the Rust subset of room.rs) and the container view "
                "lean/DiscretModel/Model/RustPrelude.lean; the 15 equalities of Lemmas/RoomKernelEq.lean tie the regenerated kernel "
                "(Room::can, is_admin, is_user_valid_at, has_user, add_*; Authorisation::can, get_right_at, …; EntityRight::new) to Model/Room.lean"]
    return res


def technique(prop):
    """sentence appended to the MANIFEST `technique` of the properties that carry regenerated obligations"""
    parts = []
    if prop in ROOM_PROPS:
        parts.append("T7: the room decision kernel (Room::can/is_admin/is_user_valid_at/has_user/add_*, Authorisation::can/get_right_at/…, "
                     "EntityRight::new) is re-translated from room.rs on every run and proved equal to the model (Lemmas/RoomKernelEq.lean)")
    if prop in INGEST_PROPS:
        parts.append("T8: validate_node / validate_node_deletions / validate_edge_deletions are re-translated from authorisation_service.rs on "
                     "every run and proved equal to the model's decisions (Lemmas/IngestKernelEq.lean)")
    if prop in DELETION_PROPS:
        parts.append("T12: the decision of validate_deletion (node deletions, reference deletions incl. the right on the re-signed source row, "
                     "the guard on references of authorisation entities) is re-translated from authorisation_service.rs on every run and proved "
                     "equal to the model's deleteNode / deleteRef / deleteRoomAdminRef for the code as it is (Lemmas/DeletionKernelEq.lean)")
    if prop in CONN_PROPS:
        parts.append("T10: the order close-the-inbox < drain < unlock-the-drained at the end of LocalPeerService::start is re-read from "
                     "peer_inbound_service.rs on every run and decided (Lemmas/ConnCloseEq.lean)")
    if prop in ROOMNODE_PROPS:
        parts.append("T11: the entitlement checks of a room definition that is not known yet and of a group new to a known room (prepare_new_room, "
                     "prepare_new_auth, groups_placed_by_admins) are re-translated from room_node.rs on every run and proved to decide as the model "
                     "(Lemmas/RoomNodeKernelEq.lean)")
    if prop in LWW_PROPS:
        parts.append("T9: the last-writer-wins chain of Node::filter_existing is re-read from node.rs on every run and proved to be the model's "
                     "filter (Lemmas/LwwEq.lean)")
    return (" + model fragments regenerated from the Rust source by a translator, with Lean equalities to the hand-written model as proof "
            "obligations of this check (" + "; ".join(parts) + ")") if parts else ""
