"""C17 — full-text search returns exactly the rows whose current text matches."""
import os, re
from . import lib
from .engine import Cfg


class C17(Cfg):
    prop = "C17"
    prop_module = "DiscretModel.Props.C17"
    lean_targets = ["dmodel_events"]
    harness_pkg = "dv-events"
    model_exe = "dmodel_events"
    design_ref = "DESIGN.md §6 C17, candidates 24 and 31"
    technique = ("Lean 4 invariant proof over a model of the content-less FTS index (set of (slot, word) + one document record per indexed slot, the maintenance rule of Node::write, "
                 "SQLite slot assignment, ingestion, deletion, model versions; extract_json as a function on JSON values) + correspondence run against the real GraphDatabaseService (1-2 instances) "
                 "+ independent oracle computed from the rows' JSON")
    level_text = ("Theorems (Lean 4; any history, any number of sites, rows, words, model versions — no bound). ONE statement for any setting d of the switches that describe where the code leaves the intended behaviour (C17_full_of, C17_search_exact_of): "
                  "after any history made of operations the code handles with d (admissibleRun, flagSafeRun — decidable, computed along the run), on every site, for every entity the model version in force declares indexed and every word, "
                  "search = the rows whose current text contains the word. Instances: Defects.none — every history is admissible (admissibleRun_none): creations, updates changing or removing text, deletions followed by creations that reuse the slot, "
                  "model versions toggling indexing, ingestion of new rows / newer versions / deletion records (C17_search_exact, C17_flag_follows_model, C17_full_none); Defects.asImplemented — /repo as it is (C17_asImplemented, C17_partial): "
                  "with the switches as they stand the admissible histories are those of local creations, updates and model versions that change no declaration; each proposed repair of /repo (findings/C17-*.patch + .verif.patch) turns one switch off and the SAME theorem then covers "
                  "deletions (local and synchronised, with slot reuse) / ingestion / every model version that changes the flag of an entity that has no row at the site. decide-checked witnesses on Defects.beforeFix and on each switch alone show the statement is false beyond: "
                  "a deletion leaves its index entries and the reused slot inherits them (locally and through a deletion record), synchronised rows are written unindexed (insert missed; update stale + missed), an index flag changed by a later model version is ignored; "
                  "and, left by the repairs, a flag that changes while the entity has rows re-indexes nothing (C17_breaks_toggleNoReindex). The text of a row is the strings of its JSON at any depth, each followed by a space (C17_text_is_the_strings). "
                  "Tie: the real engine and the compiled model run the same op files (searches for every word of past and current texts on every site; the storage slot of every row; the slots holding a document record in the index; extract_json on random JSON values), "
                  "outputs diffed; the oracle recomputes every expected result set from the rows' JSON with a plain query and substring test, independent of the model.")
    level_note = ("Trusted: Lean kernel (+propext, Classical.choice, Quot.sound), the hand-written model and harness, SQLite FTS5 (trigram tokenizer: a run of >= 3 letters/digits matches as a substring; the words used are such that none is a substring of another, "
                  "the oracle does not rely on it). Modelled and exercised: node.rs Node::write/delete, NodeToInsert::write, NodeDeletionEntry::delete_all, extract_json, mutation_query previous/current text, graph_database add_nodes, Entity::update (index flag), query.rs search join. "
                  "Ingestion is delivered by calling the ingestion entry points with rows exported from a second in-process instance (call sequence of synchronise_day; the harness fixes the order of a fetched batch to creation order — the peer's order is arbitrary). "
                  "The counters of the FTS5 index (documents, tokens) are NOT modelled: a 'delete' for text that was never indexed drives them negative and SQLite then refuses the write (findings/C17-write-refused-after-unindexed-delete.ops, reached through synchronised rows updated locally). "
                  "A search that fails with an SQL error is asked again (at most twice; counted as search_retried_after_sql_error): seen under heavy machine load only, as SQLITE_CORRUPT_VTAB on the first search after a mutation. "
                  "Not covered: query-syntax characters in the search text, texts with upper case, rows moved between rooms.")
    trusted_base = [
        "hand-written model lean/DiscretModel/Model/Fts.lean of node.rs:93-98, 297-301, 322-409, 538-568, 771-781, 947-972, 1004-1025, graph_database.rs add_nodes and query.rs:903-935, tied by the correspondence run (dv-events vs dmodel_events)",
        "harness/events/src/fts.rs (drives real GraphDatabaseService instances; oracle: plain query + substring test on the JSON the engine returns; the names of the signatures use what the harness did to each row and the index flag the implementation reports)",
        "SQLite FTS5 content-less trigram index: observed behaviour (set of (rowid, term); 'delete' of absent entries leaves the entries alone; insertion into a rowid that still has entries adds to them; one _docsize record per indexed rowid)",
    ]
    assumptions = [
        "search texts are words of >= 4 lower-case letters/digits without query syntax; no word used is a substring of another (the oracle tests real substrings anyway)",
        "rows stay in one room; one day; the order in which a fetched batch is written is creation order (any order is possible in the field; it only decides which ingested row gets the highest slot)",
        "an explicit null text is only used on single-site histories (a peer refuses explicit nulls: property C12's finding)",
        "no row of `_node` outside the modelled entities is created or deleted while a case runs (slots are compared relative to the largest rowid at the start of the case)",
    ]

    def streams(self, tier, seed, work, dv):
        res = []
        plan = [(seed, 35, 22)] if tier == "quick" else [(seed, 900, 25), (seed + 1, 300, 60)]
        for i, (sd, n, ln) in enumerate(plan):
            path = os.path.join(work, "random%d.ops" % i)
            lib.sh([dv, "gen", "--prop", "C17", "--seed", str(sd), "--n", str(n), "--len", str(ln), "--out", path], check=True)
            res.append(("random seed=%d n=%d len=%d" % (sd, n, ln), path, False))
        return res

    def nontrivial(self, ops, outs):
        return any(re.match(r"^(hits|all) \S", o) for o in outs)

    def oracle(self, ops, outs):
        """The property oracle is evaluated by the harness (it needs the rows' JSON): see `<out>.oracle`.
        Here: only well-formedness of the observations."""
        res = []
        for op, out in zip(ops[1:], outs[1:]):
            # a search that fails is named by the harness (`search-fails-…`); anything else that fails is reported here
            if out.startswith("err:") and op.split(" ")[0] in ("q", "qn"): continue
            if out == "bad-op" or out.startswith("err:") or out.startswith("case-failed"):
                res.append(("malformed-or-failed-operation", "%s -> %s" % (op, out))); break
        return res


CHECK = C17()
