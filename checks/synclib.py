"""Helpers shared by the checks of engine `sync` (C09, C03, C11): parsing of the per-op dumps printed by
`dv-sync` / `dmodel_sync` (see harness/sync/src/main.rs) and the three property oracles, which look at the
implementation's observations only.

Dump of one peer: p<i>{N[id:room:ent:cdate:mdate:author:val:sig;..] E[src:dest:cdate:author;..]
  D[id:room:ent:mdate:ddate:author:sig;..] X[src:dest:room:cdate:ddate:author:sig;..]
  L[room:ent:day:count:daily:history:dirty:chk;.. | room:ent:day:missing]}
`chk` is the harness's from-scratch recomputation (real blake3 over `_node` and the deletion logs) compared
with the stored row: ok | letters n (count) d (daily hash) h (history hash) | e (no content that day) | - (row
waiting for recomputation)."""
import json, os, re
from . import lib

DAY = 86400000

# testing aid (never set by ./check itself): VERIF_EXTRA_FINDINGS=<jsonl> makes the entries of that file count
# as known findings, so that a check can be exercised before the lead has edited KNOWN_FINDINGS.jsonl
_extra = os.environ.get("VERIF_EXTRA_FINDINGS")
if _extra and not getattr(lib, "_sync_extra_installed", False):
    _orig_known = lib.known_findings

    def _known(prop):
        res = _orig_known(prop)
        have = {e["signature"] for e in res}
        for line in open(_extra):
            line = line.strip()
            if not line or line.startswith("#"): continue
            e = json.loads(line)
            if e.get("property") == prop and e["signature"] not in have: res.append(e)
        return res
    lib.known_findings = _known
    lib._sync_extra_installed = True


def kv(line):
    t = line.split()
    if not t: return "", {}
    return t[0], dict(x.split("=", 1) for x in t[1:] if "=" in x)


def _items(s):
    return [x.split(":") for x in s.split(";") if x]


class Peer:
    __slots__ = ("nodes", "edges", "ntombs", "etombs", "log", "missing")

    def __init__(self, txt):
        m = re.match(r"N\[(.*?)\] E\[(.*?)\] D\[(.*?)\] X\[(.*?)\] L\[(.*?)\]$", txt)
        if not m: raise ValueError("malformed dump: " + txt[:80])
        self.nodes = {}     # id -> dict
        for f in _items(m.group(1)):
            self.nodes[f[0]] = dict(id=f[0], room=f[1], ent=f[2], cdate=int(f[3]), mdate=int(f[4]), author=f[5], val=f[6], sig=f[7])
        self.edges = [tuple(f) for f in _items(m.group(2))]
        self.ntombs = [dict(id=f[0], room=f[1], ent=f[2], mdate=int(f[3]), ddate=int(f[4]), author=f[5], sig=f[6]) for f in _items(m.group(3))]
        self.etombs = [dict(src=f[0], dest=f[1], room=f[2], cdate=int(f[3]), ddate=int(f[4]), author=f[5], sig=f[6]) for f in _items(m.group(4))]
        self.log, self.missing = {}, []
        for f in _items(m.group(5)):
            if len(f) == 4 and f[3] == "missing":
                self.missing.append((f[0], f[1], int(f[2])))
            else:
                self.log[(f[0], f[1], int(f[2]))] = dict(n=int(f[3]), daily=f[4], hist=f[5], dirty=f[6] == "1", chk=f[7])

    def content(self, room=None):
        """rows and deletion records (what C03 compares), as hashable values"""
        ns = sorted((n["id"], n["room"], n["ent"], n["mdate"], n["author"], n["val"], n["sig"]) for n in self.nodes.values() if room in (None, n["room"]))
        ds = sorted((t["id"], t["room"], t["ent"], t["mdate"], t["ddate"], t["author"], t["sig"]) for t in self.ntombs if room in (None, t["room"]))
        xs = sorted((t["src"], t["dest"], t["room"], t["cdate"], t["ddate"], t["author"], t["sig"]) for t in self.etombs if room in (None, t["room"]))
        return ns, ds, xs

    def visible_edges(self, room=None):
        """references a query can show: both ends stored (and the source in the room)"""
        return sorted(e for e in self.edges if e[0] in self.nodes and e[1] in self.nodes and room in (None, self.nodes[e[0]]["room"]))


def parse_out(out):
    """`<result> | p0{..} p1{..}` -> (result, [Peer]) ; lines without dump -> (line, None)"""
    if " | " not in out: return out, None
    res, dump = out.split(" | ", 1)
    peers = [Peer(m.group(1)) for m in re.finditer(r"p\d+\{(.*?)\}(?= p\d+\{|$)", dump)]
    return res, peers


def day_of(t): return t // DAY


# ---------------------------------------------------------------------------------------------- C09

def c09_oracle(ops, outs):
    """the daily log is a function of the stored content: every recomputed row equals the from-scratch value,
    every day with content has a row, no row for a day without content; two peers with equal content of a
    room and fully recomputed logs have equal logs. Failures are classified by what the op that produced
    them did, so that a new shape of the same violation is reported under another signature."""
    res, seen = [], set()
    prev = None
    for i, (op, out) in enumerate(zip(ops, outs)):
        if i == 0: continue
        try:
            r, peers = parse_out(out)
        except ValueError as e:
            return [("malformed", str(e))]
        if peers is None:
            if out != "bad-op": res.append(("malformed", out[:100]))
            continue
        if r.startswith("fail:"):
            res.append(("harness-" + r.split(":", 1)[1][:40], op)); break
        k, a = kv(op)
        for pi, p in enumerate(peers):
            for key in p.missing:
                if ("missing", pi, key) not in seen:
                    seen.add(("missing", pi, key))
                    sig = "day-without-log-row-after-reference-deletion" if _batch_has(ops, i, "unref") else "day-without-log-row"
                    res.append((sig, "peer %d %s after `%s`" % (pi, key, op)))
            for key, row in p.log.items():
                chk = row["chk"]
                if chk in ("ok", "-"): continue
                stale = "n" in chk or "d" in chk or (chk == "e" and row["n"] > 0)   # a day emptied without being marked
                tag = (pi, key, "d" if stale else ("e" if chk == "e" else "h"))
                if tag in seen: continue
                seen.add(tag)
                where = "peer %d (room,entity,day)=%s count=%d chk=%s after `%s`" % (pi, key, row["n"], chk, op)
                if chk == "e" and not stale:
                    res.append(("empty-day-row", where))
                elif stale:
                    res.append((_classify_stale(k, a, pi, key, prev, peers), where))
                elif row["hist"] == "-":
                    res.append(("history-null-after-clean-seed", where))
                elif any(k2[0] == key[0] and v2["dirty"] and (k2[1], k2[2]) < (key[1], key[2]) for k2, v2 in p.log.items()):
                    seen.discard(tag)       # an earlier day of the room is still marked: its chain is not due yet
                elif _history_cause(p, key):
                    res.append(("history-not-function-of-content", where))
                else:
                    # none of the known causes (seed of another entity, NULL history, emptied day kept) precedes this row
                    res.append(("history-wrong-without-known-cause", where))
        # equal content of a room on two peers, logs fully recomputed -> equal logs
        for room in ("1", "2"):
            for x in range(len(peers)):
                for y in range(x + 1, len(peers)):
                    lx = {k2: v for k2, v in peers[x].log.items() if k2[0] == room}
                    ly = {k2: v for k2, v in peers[y].log.items() if k2[0] == room}
                    if any(v["dirty"] or "n" in v["chk"] or "d" in v["chk"] or (v["chk"] == "e" and v["n"] > 0)
                           for v in list(lx.values()) + list(ly.values())): continue
                    if peers[x].content(room) != peers[y].content(room): continue
                    sx = {k2: (v["n"], v["daily"]) for k2, v in lx.items() if v["n"] > 0}
                    sy = {k2: (v["n"], v["daily"]) for k2, v in ly.items() if v["n"] > 0}
                    hx = {k2: v["hist"] for k2, v in lx.items()}
                    hy = {k2: v["hist"] for k2, v in ly.items()}
                    if sx != sy and ("pair-d", room) not in seen:
                        seen.add(("pair-d", room))
                        res.append(("same-content-different-daily", "peers %d,%d room %s after `%s`" % (x, y, room, op)))
                    elif sx == sy and hx != hy and ("pair-h", room) not in seen:
                        seen.add(("pair-h", room))
                        res.append(("same-content-different-history", "peers %d,%d room %s after `%s`" % (x, y, room, op)))
        prev = peers
    return res


def _history_cause(p, key):
    """a wrong history hash has a known cause when, in the same room, an earlier row of the table (entity, day order)
    belongs to another entity (#20: entity not compared), has no history hash (#20: seed dropped), is an emptied
    day that kept its row (#20), or is stale / missing (reported under its own signature)"""
    room, ent, day = key
    for k2, v in p.log.items():
        if k2[0] != room: continue
        if k2[1] != ent:
            if _ent_lt(k2[1], ent): return True
            continue
        if int(k2[2]) < int(day) and (v["hist"] == "-" or v["n"] == 0 or v["chk"] != "ok"): return True
    # an earlier day that holds rows and has no log row, or a stale one (reported under their own signatures)
    return any(m[0] == room and m[1] == ent and int(m[2]) < int(day) for m in p.missing)


def _ent_lt(a, b):
    try: return int(a) < int(b)
    except ValueError: return a < b


def _batch_has(ops, i, kind):
    """op i is of that kind, or is the commit of a batch that contains one"""
    k, _ = kv(ops[i])
    if k == kind: return True
    if k != "commit": return False
    j = i - 1
    while j > 0 and kv(ops[j])[0] != "begin":
        if kv(ops[j])[0] == kind: return True
        j -= 1
    return False


def _classify_stale(kind, a, pi, key, prev, cur):
    """a recomputed day whose count / daily hash is not that of its content: which write forgot to mark it?"""
    room, ent, day = key
    if prev is None or pi >= len(prev): return "daily-hash-stale"
    before, after = prev[pi], cur[pi]
    if kind in ("pull", "settle", "compute", "commit", "unref", "del", "upd", "new", "ref"):
        # rows that were on this day before and are elsewhere (or gone) now
        for n in before.nodes.values():
            if (n["room"], n["ent"], day_of(n["mdate"])) != key: continue
            now = after.nodes.get(n["id"])
            if now is not None and now["room"] == n["room"] and day_of(now["mdate"]) != day and now["sig"] != n["sig"]:
                if kind in ("pull", "settle"): return "stale-day-after-synchronised-cross-day-update"
                return "stale-day-after-reference-deletion"
            if now is None and kind in ("pull", "settle"):
                tombs = [t for t in after.ntombs if t["id"] == n["id"] and t["room"] == n["room"]]
                if tombs and all(day_of(t["mdate"]) != day for t in tombs):
                    return "stale-day-after-synchronised-deletion-of-other-version"
        # rows that arrived on this day without the day being recomputed
        for n in after.nodes.values():
            if (n["room"], n["ent"], day_of(n["mdate"])) != key: continue
            was = before.nodes.get(n["id"])
            if was is not None and was["sig"] != n["sig"] and kind not in ("pull", "settle"):
                return "stale-day-after-reference-deletion"
    return "daily-hash-stale"


def c09_nontrivial(ops, outs):
    for out in outs[1:]:
        try:
            _, peers = parse_out(out)
        except ValueError:
            return False
        if peers and any(v["n"] > 0 and not v["dirty"] for p in peers for v in p.log.values()): return True
    return False


# ---------------------------------------------------------------------------------------------- C03 / C11

def final_settles(ops, outs):
    """[(room, rounds, quiet, fetched, peers)] for the `settle` ops of a case"""
    res = []
    for op, out in zip(ops, outs):
        k, a = kv(op)
        if k != "settle": continue
        try:
            r, peers = parse_out(out)
        except ValueError:
            continue
        if peers is None: continue
        m = re.match(r"ok rounds=(\d+) quiet=(\d) f=(\d+)", r)
        if m: res.append((a.get("room"), int(m.group(1)), m.group(2) == "1", int(m.group(3)), peers))
    return res


def c03_oracle(ops, outs):
    """after the members have synchronised pairwise until a full round changes nothing: identical rows,
    deletion records and visible references everywhere, and the extra (quiet) round requested no row"""
    res = []
    for out in outs[1:]:
        if out.startswith("fail:"): return [("harness-" + out.split(" ")[0][5:45], out[:100])]
    rights = kv(ops[0])[1].get("rights", "").split(",")
    # rows that were MOVED to another room during the history (`upd … room=<r>`)
    moved = set()
    for op in ops[1:]:
        k, a = kv(op)
        if k == "upd" and a.get("room") not in (None, ""): moved.add(a.get("row"))
    # rows that ONE peer wrote twice at the same clock value (the known same-millisecond shape: the writer keeps its second
    # write whatever the signatures are); two peers writing at the same millisecond is the tie-break's own business
    global _REWRITTEN
    _REWRITTEN = set()
    last_write, now = {}, 0
    for op in ops[1:]:
        k, a = kv(op)
        if k == "clock": now = a.get("t", now)
        elif k == "day": now = ("day", a.get("add"), now)
        elif k in ("new", "upd", "ref", "unref"):
            key = (a.get("p"), a.get("row"))
            if last_write.get(key) == now: _REWRITTEN.add(a.get("row"))
            last_write[key] = now
    for room0, rounds, quiet, f, peers in final_settles(ops, outs):
      for room in (["1", "2"] if room0 == "0" else [room0]):
        if not quiet:
            res.append(("no-quiescence", "room %s: %d rounds and still changing" % (room, rounds)))
            continue
        found = False
        base = peers[0].content(room)
        for i, p in enumerate(peers[1:], 1):
            if p.content(room) == base: continue
            sig = _classify_divergence(room, peers, rights)
            if sig in MOVED_SYMPTOMS and _moved_row_involved(peers, moved):
                sig = "moved-row-diverges"
            res.append((sig, "room %s: peers 0 and %d differ after a quiet round" % (room, i)))
            found = True
            break
        if not found:
            be = peers[0].visible_edges(room)
            for i, p in enumerate(peers[1:], 1):
                if p.visible_edges(room) != be:
                    sig = _classify_edges(room, peers)
                    if sig in MOVED_SYMPTOMS and _moved_row_involved(peers, moved):
                        sig = "moved-row-diverges"
                    res.append((sig, "room %s: peers 0 and %d show different references" % (room, i)))
                    found = True
                    break
        if f != 0 and not found and room in ("1", room0):
            res.append(("quiet-round-still-requests-rows", "room %s: the round that changed nothing requested %d rows" % (room0, f)))
        # what the peers compare is the daily log: after quiescence (every peer recomputed) it must account for the
        # stored content, otherwise a difference can hide behind it for ever
        if not found:
            for i, p in enumerate(peers):
                bad = [k for k, v in p.log.items() if k[0] == room and not v["dirty"] and ("n" in v["chk"] or "d" in v["chk"])]
                miss = [k for k in p.missing if k[0] == room]
                if bad or miss:
                    res.append(("daily-log-stale-after-quiescence", "room %s: peer %d, (room,entity,day) %s: the log row %s" % (
                        room, i, (bad or miss)[0], "does not count / hash the stored content" if bad else "is missing")))
                    break
    return res


def _summary(p, room):
    """what RoomDefinitionLog::get reads: the log row of the lowest entity on the last day of the room"""
    rows = [(k, v) for k, v in p.log.items() if k[0] == room]
    if not rows: return None
    last = max(k[2] for k, _ in rows)
    k, v = min(((k, v) for k, v in rows if k[2] == last), key=lambda x: x[0][1])
    return (last, v["daily"], v["hist"])


# the symptoms that the per-room treatment of a moved row produces (a row or a reference present on some peers only);
# a pure last-writer-wins failure (two peers keep different versions of a row in ONE room) is never re-labelled
MOVED_SYMPTOMS = {"rows-missing-after-quiescence", "references-differ-after-quiescence", "reference-of-deleted-row-differs",
                  "deleted-row-present-on-some-peers", "content-differs-after-quiescence"}


def _moved_row_involved(peers, moved):
    """the peers disagree on a row that changed room during the history, or on a reference from / to such a row:
    deletion records, the deletion gate of ingestion and the right checks are all PER ROOM, and a synchronised deletion
    leaves the references of the row in place; the refinement theorems of C03 assume that rows keep their room"""
    if not moved: return False
    for a in range(len(peers)):
        for b in range(a + 1, len(peers)):
            pa, pb = peers[a], peers[b]
            for rid in moved:
                if pa.nodes.get(rid) != pb.nodes.get(rid): return True
                ea = {e for e in pa.edges if e[0] == rid or e[1] == rid}
                eb = {e for e in pb.edges if e[0] == rid or e[1] == rid}
                if ea != eb: return True
                ta = {(t["id"], t["room"], t["sig"]) for t in pa.ntombs if t["id"] == rid}
                tb = {(t["id"], t["room"], t["sig"]) for t in pb.ntombs if t["id"] == rid}
                if ta != tb: return True
    return False


def _same_ms_versions(peers):
    """a row of which two peers store different versions carrying the SAME modification date: the last-writer-wins
    rule then picks the greater signature, but a peer that WROTE the second version itself (two writes of one row within
    one millisecond, e.g. an update that moves the row to another room right after its creation) keeps its own write
    whatever the signatures are — the other peers keep the greater signature, for ever"""
    for a in range(len(peers)):
        for b in range(a + 1, len(peers)):
            for rid, n in peers[a].nodes.items():
                m = peers[b].nodes.get(rid)
                if m is not None and m["mdate"] == n["mdate"] and m["sig"] != n["sig"]:
                    return rid
    return None


_REWRITTEN = set()


def _classify_divergence(room, peers, rights):
    if _same_ms_versions(peers) in _REWRITTEN:
        return "same-millisecond-versions-of-one-row-kept"
    contents = [p.content(room) for p in peers]
    for x in range(len(peers)):
        for y in range(x + 1, len(peers)):
            if contents[x] != contents[y]:
                sx, sy = _summary(peers[x], room), _summary(peers[y], room)
                if sx is not None and sx == sy and sx[2] != "-":
                    return "room-summary-compares-first-entity-only"
    tombs = [set(c[1]) for c in contents]
    if any(t != tombs[0] for t in tombs):
        # the same row deleted twice on one day: one answer carries both records, they are keyed by row id
        allrec = set().union(*tombs)
        for t in allrec:
            twins = [u for u in allrec if u[0] == t[0] and u != t and day_of(u[4]) == day_of(t[4])]
            if twins and any(t not in s and any(u in s for u in twins) for s in tombs):
                # same MILLISECOND: the two records have the same primary key (room, deletion date, id, entity) in
                # _node_deletion_log, each peer keeps the one it stored last — not the defect repaired by /repo a395f05
                if any(u[4] == t[4] for u in twins):
                    return "same-millisecond-deletion-records-collide"
                return "two-deletion-records-of-one-row-one-day"
        return "deletion-records-differ-after-quiescence"
    rows = [{n[0]: n for n in c[0]} for c in contents]
    ids = set().union(*[set(r) for r in rows])
    tomb_ids = {d[0] for d in tombs[0]}
    for rid in sorted(ids):
        have = [r.get(rid) for r in rows]
        if all(h == have[0] for h in have): continue
        if any(h is None for h in have):
            return "deleted-row-present-on-some-peers" if rid in tomb_ids else "rows-missing-after-quiescence"
        best = max(have, key=lambda n: (n[3], int(n[6]) if n[6].isdigit() else -1))
        losers = [h for h in have if h != best]
        # the winning version sits on a day its holder never marked (re-dated by a reference deletion, #3):
        # no log row, or a log row that does not account for it -> nobody is ever told about it
        for pi, p in enumerate(peers):
            if rows[pi].get(rid) != best: continue
            key = (best[1], best[2], day_of(best[3]))
            row = p.log.get(key)
            if key in p.missing or (row is not None and not row["dirty"] and row["chk"] not in ("ok",) and
                                    ("n" in row["chk"] or "d" in row["chk"] or row["chk"] == "e")):
                return "winning-version-on-a-day-its-holder-never-marked"
        author = best[4]
        if author.isdigit() and int(author) < len(rights) and rights[int(author)] == "s" and all(h[4] != author for h in losers):
            return "greater-version-refused-author-lacks-all-rows-right"
        return "row-versions-differ-after-quiescence"
    return "content-differs-after-quiescence"


def _classify_edges(room, peers):
    """a reference held by some peers only, whose source row is the same version everywhere: the reference was
    added concurrently with a later update of the row, and references travel only with fetched rows"""
    es = [set(p.visible_edges(room)) for p in peers]
    # deletion records are per room: a record of ANOTHER room (the row lived there before it was moved) does not make the
    # row a deleted row of this room
    dead = {t["id"] for p in peers for t in p.ntombs if t["room"] == room}
    for e in set().union(*es):
        if all(e in s for s in es): continue
        src = e[0]
        if src in dead or e[1] in dead:
            return "reference-of-deleted-row-differs"
        vers = {p.nodes[src]["sig"] for p in peers if src in p.nodes}
        if len(vers) == 1 and all(int(e[2]) <= p.nodes[src]["mdate"] for p in peers if src in p.nodes):
            return "reference-older-than-winning-version-not-propagated"
    return "references-differ-after-quiescence"


def c03_nontrivial(ops, outs):
    return any(re.match(r"ok f=[1-9]", o) for o in outs)


def c11_oracle(ops, outs):
    """once a peer has applied a valid deletion of a row (it stores the deletion record), no later dump of that
    peer shows the row at the deleted or an older version; after quiescence the row is absent and the record
    present everywhere"""
    res, seen = [], set()
    applied = {}   # (peer, id) -> newest mdate covered by a stored deletion record
    prev = None
    for i, (op, out) in enumerate(zip(ops, outs)):
        if i == 0: continue
        if out.startswith("fail:"): return [("harness-" + out.split(" ")[0][5:45], out[:100])]
        try:
            r, peers = parse_out(out)
        except ValueError as e:
            return [("malformed", str(e))]
        if peers is None: continue
        k, a = kv(op)
        for pi, p in enumerate(peers):
            had_record = {t["id"] for t in prev[pi].ntombs} if prev is not None and pi < len(prev) else set()
            for t in p.ntombs:
                k2 = (pi, t["id"])
                applied[k2] = max(applied.get(k2, -1), t["mdate"])
            for (qi, rid), md in applied.items():
                if qi != pi: continue
                n = p.nodes.get(rid)
                if n is not None and n["mdate"] <= md and (pi, rid) not in seen:
                    seen.add((pi, rid))
                    src_had_row = True
                    if k == "pull" and prev is not None and a.get("src", "").isdigit() and int(a["src"]) < len(prev):
                        src_had_row = rid in prev[int(a["src"])].nodes
                    if n["room"] not in {t["room"] for t in p.ntombs if t["id"] == rid}:
                        # deletion records are per room: the version shown lives in ANOTHER room than every record the peer
                        # holds of that row (a row that changed room; not touched by the repair of #18)
                        sig = "deleted-row-older-version-in-other-room"
                    elif rid not in had_record and k != "settle" and not (k == "pull" and src_had_row):
                        # the record was stored by this very op, nobody offered the row, and the row is still there
                        sig = "deletion-record-stored-row-kept"
                    elif k in ("pull", "settle"):
                        # the peer held the record, a later pull brought the row (back)
                        sig = "deleted-row-back-after-pull"
                    else:
                        sig = "deleted-row-back-after-local-write"
                    res.append((sig, "peer %d shows row %s (mdate %d) although it stores its deletion record; after `%s`" % (pi, rid, n["mdate"], op)))
            # references: once the peer stores the deletion record of a reference, that reference (same ends, same
            # creation date) is never shown again
            for t in p.etombs:
                key = (t["src"], t["dest"], t["cdate"])
                if any((e[0], e[1], int(e[2])) == key for e in p.edges) and ("edge", pi, key) not in seen:
                    seen.add(("edge", pi, key))
                    # known way: the source or target row was deleted and came back (#18), its references are then
                    # fetched from scratch and add_edges does not look at the deletion log either
                    dead_any = {u["id"] for q in peers for u in q.ntombs}
                    name = "deleted-reference-back-with-deleted-row" if (t["src"] in dead_any or t["dest"] in dead_any) else "deleted-reference-back"
                    res.append((name, "peer %d shows the reference %s->%s (created %d) although it stores its deletion record; after `%s`" % (pi, t["src"], t["dest"], t["cdate"], op)))
        prev = peers
    for room, rounds, quiet, f, peers in final_settles(ops, outs):
        if not quiet: continue
        # "once all members have synchronised, the row is absent everywhere": a peer that stores a deletion record of a
        # row in a room shows no version of it in that room — also not a NEWER one written by a peer that had not seen
        # the deletion (in the opposite arrival order the record deletes whatever version is stored)
        for pi, p in enumerate(peers):
            for t in p.ntombs:
                if room != "0" and t["room"] != room: continue
                n = p.nodes.get(t["id"])
                if n is not None and n["room"] == t["room"] and (pi, t["id"]) not in seen:
                    seen.add((pi, t["id"]))
                    res.append(("deleted-row-back-after-pull", "room %s: after quiescence peer %d shows row %s (version %d) in the room of its deletion record (version %d deleted %d)" % (
                        t["room"], pi, t["id"], n["mdate"], t["mdate"], t["ddate"])))
        for pi, p in enumerate(peers):
            for qi, q in enumerate(peers):
                for t in q.ntombs:
                    if room != "0" and t["room"] != room: continue
                    if not any(u["id"] == t["id"] and u["sig"] == t["sig"] for u in p.ntombs) and ("rec", t["id"]) not in seen:
                        seen.add(("rec", t["id"]))
                        # known cause: two records of that row dated the same day, of which an answer keeps one
                        twin = any(u is not t and u["id"] == t["id"] and day_of(u["ddate"]) == day_of(t["ddate"])
                                   for r in peers for u in r.ntombs if u["sig"] != t["sig"])
                        n = p.nodes.get(t["id"])
                        sp, sq = _summary(p, t["room"]), _summary(q, t["room"])
                        twin_ms = any(u is not t and u["id"] == t["id"] and u["ddate"] == t["ddate"]
                                      for r in peers for u in r.ntombs if u["sig"] != t["sig"])
                        if twin_ms:
                            # same millisecond: one primary key in _node_deletion_log for the two records
                            sig = "same-millisecond-deletion-records-collide"
                        elif sp is not None and sp == sq and sp[2] != "-":
                            # the two room summaries (first entity of the last day) agree: nothing is compared (C03).
                            # Judged BEFORE the twin-record cause: since /repo a395f05 two records of one row in one answer are
                            # both applied, a record that is still missing when the summaries agree was never asked for
                            sig = "deletion-missing-room-summaries-equal"
                        elif twin:
                            sig = "deletion-record-missing-after-quiescence"
                        elif n is not None and n["author"] != t["author"] and not _all_rows_at(ops[0], t["author"], t["ddate"]):
                            # the peer holds a version by somebody else: the deleter is asked for the all-rows right (#19)
                            sig = "deletion-refused-local-version-by-other-author"
                        elif n is not None and n["mdate"] <= t["mdate"]:
                            sig = "deletion-not-applied-by-peer-after-quiescence"
                        else:
                            sig = "deletion-record-not-stored-by-peer-after-quiescence"
                        res.append((sig, "room %s: peer %d lacks the deletion record of row %s (version %d, deleted %d by %s) that peer %d stores%s" % (
                            room, pi, t["id"], t["mdate"], t["ddate"], t["author"], qi, "; it still shows the row" if n is not None else "")))
                for t in q.etombs:
                    if room != "0" and t["room"] != room: continue
                    key = (t["src"], t["dest"], t["cdate"])
                    if any((e[0], e[1], int(e[2])) == key for e in p.edges) and not any(u["sig"] == t["sig"] for u in p.etombs) \
                            and ("edge-q", key) not in seen:
                        seen.add(("edge-q", key))
                        dead_any = {u["id"] for r in peers for u in r.ntombs}
                        name = "deleted-reference-visible-after-quiescence"
                        if t["src"] in dead_any or t["dest"] in dead_any: name += "-with-deleted-row"
                        res.append((name, "room %s: peer %d shows the reference %s->%s (created %d) whose deletion record peer %d stores" % (
                            room, pi, t["src"], t["dest"], t["cdate"], qi)))
    return res


def _all_rows_at(case_line, author, date):
    """does that member hold the all-rows right at that date (rights=a,s,l grant=T of the case line)"""
    _, a = kv(case_line)
    rights = a.get("rights", "").split(",")
    if not author.isdigit() or int(author) >= len(rights): return False
    r = rights[int(author)]
    return r == "a" or (r == "l" and a.get("grant", "").isdigit() and date >= int(a["grant"]))


def c11_nontrivial(ops, outs):
    try:
        return any(p.ntombs for o in outs[1:] for p in (parse_out(o)[1] or []))
    except ValueError:
        return False
