"""The standard check: proofs (lake build + axiom audit) + correspondence (impl vs model on op files)
+ an independent oracle over the implementation's observations + search/shrink + verdict."""
import hashlib, json, os, re, shutil, time
from . import lib, kernel
from .lib import CheckError


class Cfg:
    prop = None            # "C20"
    prop_module = None     # "DiscretModel.Props.C20"
    lean_targets = None    # extra lake targets (drivers)
    harness_pkg = None     # cargo package / binary name
    model_exe = None       # lean_exe name
    trusted_base = []
    assumptions = []
    design_ref = ""

    def streams(self, tier, seed, work, dv):
        """generate op files; returns list of (name, path, exhaustive?)"""
        raise NotImplementedError

    def oracle(self, ops, outs):
        """independent check of the property on ONE case of the implementation's observations.
        returns list of (signature, detail)."""
        return []

    def nontrivial(self, ops, outs):
        return True

    def timing_sensitive(self, sig, detail):
        """oracle failures that are a call exceeding the harness time-out: reported only when they reproduce"""
        return sig in ("hang", "timeout") or detail.startswith("hang ") or " timed out" in detail

    def neighbours(self, ops):
        """variants of a (shrunk) disagreeing case on which the oracle is also tried"""
        res = []
        for i in range(1, len(ops)):
            res.append(ops[:i] + ops[i + 1:])
        for i in range(1, len(ops) - 1):
            res.append(ops[:i] + [ops[i + 1], ops[i]] + ops[i + 2:])
        return res


def _rust_oracle(out_path):
    """lines `<case index> <signature> <detail>` written by the harness next to its observations"""
    res = {}
    p = out_path + ".oracle"
    if os.path.exists(p):
        for l in lib.read_lines(p):
            t = l.split(" ", 2)
            if len(t) >= 2 and t[0].isdigit():
                res.setdefault(int(t[0]), []).append((t[1], t[2] if len(t) > 2 else ""))
    return res


def case_oracle(cfg, ops, impl_path):
    """all oracle failures (python + rust side) of a single-case op list executed into impl_path"""
    impl = lib.read_lines(impl_path)
    res = list(cfg.oracle(ops, impl))
    for v in _rust_oracle(impl_path).values(): res += v
    return res


def _run_case_files(cfg, dv, model, work, ops, tag):
    p = os.path.join(work, "shrink_%s.ops" % tag)
    with open(p, "w") as f: f.write("\n".join(ops) + "\n")
    io, mo = p + ".impl", p + ".model"
    lib.run_impl(dv, p, io)
    impl = lib.read_lines(io)
    mod = None
    if model:
        lib.run_model(model, p, mo)
        mod = lib.read_lines(mo)
    return impl, mod


def run(cfg, tier, seed):
    rep = lib.Report(cfg.prop, tier, seed, "proof")
    rep.assumptions = list(cfg.assumptions)
    work = os.path.join(lib.OUT, "work", cfg.prop)
    shutil.rmtree(work, ignore_errors=True)
    os.makedirs(work, exist_ok=True)
    cov = rep.cov
    known = {e["signature"]: e for e in lib.known_findings(cfg.prop)}

    # ---- 1. proofs
    prop_path = os.path.join(lib.LEAN, cfg.prop_module.replace(".", "/") + ".lean")
    names, n_examples = lib.theorems_of(prop_path)
    obligations = len(names) + n_examples
    extra_mods = kernel.extra_modules(cfg.prop)
    extra_names = []
    with lib.Lock("gen"):      # regenerate-and-build is one step: a concurrent run must not swap the Gen files in between
        translator_problems = kernel.pre_build(cfg.prop)
        ok, log, dt = lib.lean_build([cfg.prop_module] + list(cfg.lean_targets or []), cfg.prop_module)
        ok_extra, log_extra = True, ""
        if extra_mods:      # built apart: a broken regenerated obligation must not take the model driver away from the search
            ok_extra, log_extra, dt2 = lib.lean_build(extra_mods, cfg.prop_module)
            dt += dt2
    for m in extra_mods:
        ns_, ex_ = lib.theorems_of(os.path.join(lib.LEAN, m.replace(".", "/") + ".lean"))
        extra_names += ns_; n_examples += ex_
    obligations += len(extra_names)
    cov["lean_build_s"] = round(dt, 1)
    cov["regenerated_obligations"] = {"modules": extra_mods, "theorems": extra_names, "translator_problems": translator_problems}
    proof_broken = None
    discharged = 0
    axioms = {}
    if translator_problems:
        proof_broken = "translator failed: " + "; ".join(translator_problems)
    elif not ok:
        m = re.search(r"error: ([^\n]*)", log)
        proof_broken = "lake build failed: " + (m.group(1) if m else log[-500:])
    if ok and not ok_extra and not proof_broken:
        m = re.search(r"error: ([^\n]*)", log_extra)
        proof_broken = "regenerated obligation no longer checks (%s): %s" % (
            ",".join(extra_mods), m.group(1) if m else log_extra[-500:])
    if ok and ok_extra and not translator_problems:
        roots = [cfg.prop_module] + extra_mods + [lib.exe_root(t) for t in (cfg.lean_targets or [])]
        bad = lib.forbidden_tokens([r for r in roots if r])
        cov["lean_files_audited"] = [os.path.relpath(p, lib.LEAN) for p in lib.import_closure([r for r in roots if r])]
        if bad:
            proof_broken = "forbidden tokens in Lean sources: " + "; ".join(bad[:5])
        axioms, n_ex2, problems = lib.lean_audit(cfg.prop_module)
        for m in extra_mods:
            ax2, _, pr2 = lib.lean_audit(m)
            axioms.update(ax2); problems += pr2
        if problems:
            proof_broken = "axiom audit: " + "; ".join(problems[:5])
        if not proof_broken:
            discharged = obligations
        if tier == "thorough" and not proof_broken:
            okc, outc, dtc = lib.leanchecker(cfg.prop_module)
            cov["leanchecker_s"] = round(dtc, 1)
            if not okc:
                proof_broken = "leanchecker rejected %s: %s" % (cfg.prop_module, outc[-500:])
            for m in extra_mods:       # the regenerated obligations are re-checked by the independent checker too
                if proof_broken: break
                okc, outc, dtc = lib.leanchecker(m)
                cov["leanchecker_s"] = round(cov["leanchecker_s"] + dtc, 1)
                if not okc:
                    proof_broken = "leanchecker rejected %s: %s" % (m, outc[-500:])
    used_axioms = sorted({a for v in axioms.values() for a in v})
    cov.update({
        "obligations": obligations, "discharged": discharged,
        "theorems": names + extra_names, "examples": n_examples,
        "checker_cmd": "cd /verif/lean && lake build %s && lake env lean <generated #print axioms audit>%s" % (
            cfg.prop_module, " && lake env leanchecker " + " ".join([cfg.prop_module] + extra_mods) if tier == "thorough" else ""),
        "trusted_base": ["Lean 4.33.0 kernel", "axioms used by the theorems: %s" % (used_axioms or "none")]
                        + list(cfg.trusted_base) + kernel.trusted(cfg.prop),
        "axioms_by_theorem": axioms,
    })

    # ---- 2. harness against /repo's working tree
    pkgs = cfg.harness_pkg if isinstance(cfg.harness_pkg, list) else [cfg.harness_pkg]
    dvs, dtb_total = {}, 0.0
    for pkg in pkgs:
        okb, outb, dtb, dvb = lib.cargo_build(pkg)
        dtb_total += dtb
        if not okb:
            txt = ["correspondence=%s cannot be established: the harness no longer builds against /repo" % pkg,
                   "cargo_output=" + outb[-3000:]]
            rep.violation(lib.save_replay(cfg.prop, txt, "txt"), "harness build failed", True)
            cov["cargo_build_s"] = round(dtb_total, 1)
            return rep.finish()
        dvs[pkg] = dvb
    cov["cargo_build_s"] = round(dtb_total, 1)
    dv = dvs[pkgs[0]]
    model = lib.model_bin(cfg.model_exe) if (ok and cfg.model_exe) else None
    default_dv, default_model = dv, model

    # ---- 3. streams: corpus first, then generated
    streams = []
    cdir = os.path.join(lib.ROOT, "corpus", cfg.prop)
    if os.path.isdir(cdir):
        for f in sorted(os.listdir(cdir)):
            if f.endswith(".ops"): streams.append(("corpus/" + f, os.path.join(cdir, f), False))
    streams += cfg.streams(tier, seed, work, dvs if isinstance(cfg.harness_pkg, list) else dv)

    evaluations, distinct, traces_ok = 0, set(), 0
    counters, disagreements, oracle_fail = {}, [], []
    exhaustive_streams = []
    for stream in streams:
        name, path, exhaustive = stream[:3]
        # a stream may name its own harness package / model exe (several engines serving one property)
        dv = dvs[stream[3]] if len(stream) > 3 and stream[3] else default_dv
        model = (lib.model_bin(stream[4]) if ok else None) if len(stream) > 4 and stream[4] else default_model
        if hasattr(cfg, "engine_of_corpus") and len(stream) == 3 and name.startswith("corpus/"):
            pk, mx = cfg.engine_of_corpus(name)
            dv, model = dvs[pk], (lib.model_bin(mx) if ok else None)
        tag = re.sub(r"\W", "_", name)
        io, mo, st = [os.path.join(work, tag + s) for s in (".impl", ".model", ".stats.json")]
        dt_i = lib.run_impl(dv, path, io, st)
        ops, impl = lib.read_lines(path), lib.read_lines(io)
        mod = None
        if model:
            dt_m = lib.run_model(model, path, mo)
            mod = lib.read_lines(mo)
        if os.path.exists(st):
            for k, v in json.load(open(st)).get("counters", {}).items():
                counters[k] = counters.get(k, 0) + v
        if len(impl) != len(ops):
            raise CheckError("harness wrote %d observations for %d ops (%s)" % (len(impl), len(ops), name))
        cases = lib.split_cases(ops, impl)
        rust_or = _rust_oracle(io)
        mcases = lib.split_cases(ops, mod) if mod is not None else None
        for ci, (cops, couts) in enumerate(cases):
            evaluations += 1
            if cfg.nontrivial(cops, couts):
                distinct.add(hashlib.sha1("\n".join(cops[1:]).encode()).digest()[:8])
            if len(cov["samples"]) < 3 and len(cops) > 2 and ci % 97 == 3:
                cov["samples"].append({"stream": name, "ops": cops[:12], "impl": couts[:12]})
            for sig, detail in list(cfg.oracle(cops, couts)) + rust_or.get(ci, []):
                oracle_fail.append((name, cops, sig, detail, dv))
            if mcases is not None:
                if mcases[ci][1] != couts:
                    disagreements.append((name, cops, couts, mcases[ci][1], dv, model))
                else:
                    traces_ok += 1
        if exhaustive: exhaustive_streams.append(name)
    cov.update({"evaluations": evaluations, "distinct_nontrivial": len(distinct),
                "traces_validated_against_impl": traces_ok, "counters": counters,
                "streams": [s[0] for s in streams], "exhaustive_streams": exhaustive_streams,
                "model_disagreements": len(disagreements), "oracle_failures": len(oracle_fail)})
    if exhaustive_streams: cov["exhaustive"] = True
    if not cov["samples"] and streams:
        ops = lib.read_lines(streams[0][1])[:10]
        cov["samples"].append({"stream": streams[0][0], "ops": ops})

    # ---- 4. oracle failures on the implementation (independent of the model)
    reported = set()
    for name, cops, sig, detail, dv in oracle_fail:
        if sig in known:
            rep.known(sig); continue
        if sig in reported: continue
        def failing(c):
            # a reduced op list can be ill-formed (an op that defines something a later op names was removed): the harness
            # answers bad-op and an oracle written for well-formed cases may raise; such a candidate simply does not fail
            try:
                _run_case_files(cfg, dv, None, work, c, "o")
                return any(s == sig for s, _ in case_oracle(cfg, c, os.path.join(work, "shrink_o.ops.impl")))
            except CheckError:
                raise
            except Exception:
                return False
        if cfg.timing_sensitive(sig, detail) and not any(failing(cops) for _ in range(3)):
            # a call that timed out once (machine under load) and completes on three standalone re-runs of the
            # same case is not a replayable violation: counted in the evidence, not reported
            cov.setdefault("unreproduced_timeouts", []).append({"stream": name, "signature": sig, "detail": detail[:200]})
            print("# timeout not reproduced on 3 re-runs of the case, not reported: %s: %s" % (sig, detail[:160]))
            continue
        reported.add(sig)
        small = lib.ddmin(cops, failing)
        rep.violation(lib.save_replay(cfg.prop, small), "oracle: %s: %s (stream %s)" % (sig, detail, name))

    # ---- 5. model/implementation disagreements: shrink, then search for a failing input
    if disagreements and not rep.violations:
        name, cops, couts, mouts, dv, model = disagreements[0]
        def differs(c):
            impl, mod = _run_case_files(cfg, dv, model, work, c, "d")
            return impl != mod
        small = lib.ddmin(cops, differs) if differs(cops) else cops
        impl, mod = _run_case_files(cfg, dv, model, work, small, "d")
        found = None
        for cand in [small] + cfg.neighbours(small):
            try:
                _run_case_files(cfg, dv, None, work, cand, "n")
                bad = [(s, d) for s, d in case_oracle(cfg, cand, os.path.join(work, "shrink_n.ops.impl")) if s not in known]
            except CheckError:
                raise
            except Exception:
                bad = []      # an ill-formed neighbour (see `failing`)
            if bad: found = (cand, bad[0]); break
        if found:
            rep.violation(lib.save_replay(cfg.prop, found[0]),
                          "model disagreement led to oracle failure %s: %s" % found[1])
        else:
            k = lib.first_diff(impl, mod or [])
            txt = ["correspondence=%s first_diff_line=%s" % (cfg.harness_pkg, k),
                   "impl=" + (impl[k] if k is not None and k < len(impl) else "<none>"),
                   "model=" + (mod[k] if mod and k is not None and k < len(mod) else "<none>"),
                   "theorems_no_longer_tied=" + ",".join(names), "ops:"] + small
            rep.violation(lib.save_replay(cfg.prop, txt, "txt"),
                          "implementation and model disagree (%d cases); no oracle failure found on the shrunk case or its neighbours" % len(disagreements), True)

    # ---- 6. a proof obligation that no longer checks
    if proof_broken and not rep.violations:
        txt = ["theorem=%s file=%s" % (",".join(names) or "<module>", os.path.relpath(prop_path, lib.ROOT)),
               "lake_output=" + proof_broken]
        rep.violation(lib.save_replay(cfg.prop, txt, "txt"), proof_broken, True)
    return rep.finish()
