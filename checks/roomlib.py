"""Helpers shared by the checks of engine `room` (C10, C01, C12): op-line parsing and the decoding of
the decision matrix printed by `dv-room` / `dmodel_room` (see harness/room/src/world.rs)."""

ENTITIES = ["*", "Person", "Pet", "Note", "ghost"]


def kv(line):
    t = line.split()
    if not t: return "", {}
    return t[0], dict(x.split("=", 1) for x in t[1:] if "=" in x)


def ulist(s):
    """`k+`|`k-`|`k` -> [(key, enabled)]"""
    res = []
    for t in s.split(","):
        if not t: continue
        if t.endswith("+"): res.append((int(t[:-1]), True))
        elif t.endswith("-"): res.append((int(t[:-1]), False))
        else: res.append((int(t), True))
    return res


def rlist(s):
    res = []
    for t in s.split(","):
        if not t: continue
        e, a, b = t.split(":")
        res.append((int(e), a == "1", b == "1"))
    return res


def nest_tree(a):
    """`nest` op -> {handle: [handles of its ancestors in the tree, the mutated entity first]} for every entity below
    the mutated one (`c=` lists the tree in pre-order, one `.` per level)"""
    top = a.get("h")
    stack, res = [top], {}
    for t in a.get("c", "").split("+"):
        if not t: continue
        depth = len(t) - len(t.lstrip("."))
        h = t.lstrip(".").split(":")[0][1:]
        stack = stack[:depth + 1]
        res[h] = list(stack)
        stack.append(h)
    return res


def nest_existing(a):
    """handles of the EXISTING rows named by a `nest` op below the mutated entity"""
    return {t.lstrip(".").split(":")[0][1:] for t in a.get("c", "").split("+") if t.lstrip(".")[:1] == "h"}


class Entry:
    """one entry of a room definition as written by an accepted `mut` line"""
    __slots__ = ("lst", "key", "date", "payload", "author", "mut_index", "group")

    def __init__(self, lst, key, date, payload, author, mut_index, group):
        self.lst, self.key, self.date, self.payload = lst, key, date, payload
        self.author, self.mut_index, self.group = author, mut_index, group


def ident_of_site(s):
    return s + 1 if s < 3 else 100 + s


def entries_of_mut(a, mut_index):
    """entries written by a `mut` op (a = its key/value dict)"""
    d, s = int(a["d"]), int(a["s"])
    author = ident_of_site(s)
    res = []
    for k, en in ulist(a.get("adm", "")):
        res.append(Entry("adm", k, d, en, author, mut_index, None))
    for g in [x for x in a.get("grp", "").split(",") if x]:
        for k, en in ulist(a.get("g%s.u" % g, "")):
            res.append(Entry("g%s.u" % g, k, d, en, author, mut_index, int(g)))
        for k, en in ulist(a.get("g%s.ua" % g, "")):
            res.append(Entry("g%s.ua" % g, k, d, en, author, mut_index, int(g)))
        for e, ms, ma in rlist(a.get("g%s.r" % g, "")):
            res.append(Entry("g%s.r" % g, e, d, (ms, ma), author, mut_index, int(g)))
    return res


def parse_matrix(out):
    """`m groups=N k:c.c.c|k:...` -> (ngroups, {key: [cells]}) ; `none` -> None"""
    if not out.startswith("m "): return None
    t = out.split()
    n = int(t[1].split("=")[1])
    rows = {}
    for part in t[2].split("|"):
        k, cells = part.split(":")
        rows[int(k)] = [int(c) for c in cells.split(".")]
    return n, rows


def same_decisions(a, b):
    """two `obs` outputs describe the same decisions (an unknown room decides nothing: all zero)"""
    if a == b: return True
    pa, pb = parse_matrix(a), parse_matrix(b)
    if pa is None and pb is None: return a == b
    if pa is None or pb is None:
        if (a if pa is None else b) != "none": return False
        p = pa or pb
        return all(c == 0 for cells in p[1].values() for c in cells)
    return pa[1] == pb[1]


NGROUPS = 4


def self_bit_positions(nbits_groups=NGROUPS):
    """bit positions that are MutateSelf decisions (group-level and room-level)"""
    pos = set()
    base = 2
    for g in range(nbits_groups):
        for e in range(5):
            pos.add(base + 12 * g + 2 + 2 * e)
    tail = base + 12 * nbits_groups
    for e in range(5):
        pos.add(tail + 2 * e)
    return pos
