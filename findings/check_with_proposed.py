#!/usr/bin/env python3
"""Runs one check with the PROPOSED known-finding entries of findings/*-known-findings-proposed.jsonl added to
those of KNOWN_FINDINGS.jsonl (which is never written): `findings/check_with_proposed.py C10 [quick|thorough]`.
Used by the engine authors to see the check pass before the lead has decided on the entries."""
import glob, importlib, json, os, sys
ROOT = os.path.dirname(os.path.dirname(os.path.abspath(__file__)))
sys.path.insert(0, ROOT); os.chdir(ROOT)
from checks import lib, engine
PROPOSED = []
for f in sorted(glob.glob(os.path.join(ROOT, "findings", "*known-findings-proposed.jsonl")) +
                glob.glob(os.path.join(ROOT, "findings", "*proposed-known-findings.jsonl"))):
    for l in open(f):
        l = l.strip()
        if l and not l.startswith("#"):
            try: PROPOSED.append(json.loads(l))
            except ValueError: pass
orig = lib.known_findings
lib.known_findings = lambda prop: orig(prop) + [e for e in PROPOSED if e.get("property") == prop]
prop = sys.argv[1]
tier = sys.argv[2] if len(sys.argv) > 2 else "quick"
cfg = importlib.import_module("checks." + prop).CHECK
try:
    rc = cfg.run(tier, 1) if hasattr(cfg, "run") else engine.run(cfg, tier, int(os.environ.get("VERIF_SEED", "1") or 1))
except lib.CheckError as e:
    print("CHECK-ERROR", e); rc = 2
sys.exit(rc)
