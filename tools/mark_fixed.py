#!/usr/bin/env python3
"""mark_fixed.py <commit> <signature>[,<signature>…] : turns the known-finding entries with these signatures into
`fixed:` lines of KNOWN_FINDINGS.jsonl (a fixed entry suppresses nothing)."""
import json, sys
commit, sigs = sys.argv[1], set(sys.argv[2].split(","))
p = "/verif/KNOWN_FINDINGS.jsonl"
out, done = [], set()
for l in open(p):
    s = l.rstrip("\n")
    if s.startswith("{"):
        e = json.loads(s)
        if e.get("signature") in sigs:
            out.append("fixed: property=%s %s %s; replay %s, signature %s" % (
                e["property"], commit, e.get("text", "").strip(), e.get("replay", "-"), e["signature"]))
            done.add((e["property"], e["signature"])); continue
    out.append(s)
open(p, "w").write("\n".join(out) + "\n")
print("marked fixed:", sorted(done), "not found:", sorted(sigs - {s for _, s in done}))
