#!/bin/bash
# runs every accepted check with several seeds on the unchanged tree (evidence redirected) and reports any non-zero exit
cd /verif
out=/tmp/sweep-$$; mkdir -p $out
for seed in "$@"; do
  for p in $(python3 -c "import json; print(' '.join(json.load(open('tools/ready.json'))))"); do
    s=$(date +%s)
    VERIF_SEED=$seed VERIF_OUT=$out ./check $p > $out/$p-$seed.log 2>&1; rc=$?
    e=$(( $(date +%s) - s ))
    echo "$p seed=$seed rc=$rc ${e}s $(grep -c '^VIOLATION' $out/$p-$seed.log) violations"
    [ $rc -ne 0 ] && grep -E "^VIOLATION|^# |CHECK-ERROR" $out/$p-$seed.log | head -5
  done
done
echo "logs in $out"
