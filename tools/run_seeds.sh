#!/bin/bash
# run_seeds.sh <Cxx> [check-props...]   confirm the seeded changes in /tmp/seed-<Cxx>/out/<k>/ and run the
# check(s) against each in the private mutation environment /tmp/mut-lead. Results -> /verif/seeded/<Cxx>-<k>/
# Optional extra arguments: other properties whose checks should also be tried when the first misses it.
set -u
prop="$1"; shift; others="$*"
wt=${SEED_WT:-/tmp/seed-$prop}; off=${SEED_OFFSET:-0}
for d in $wt/out/*/; do
  k=$(basename $d)
  [ -f $d/patch.diff ] || continue
  dest=/verif/seeded/$prop-$((k+off)); mkdir -p $dest
  cp $d/patch.diff $d/demo.diff $dest/ 2>/dev/null; cp $d/notes.md $dest/ 2>/dev/null
  f=$(python3 - "$d/demo.diff" <<'PY'
import re,sys
lines=open(sys.argv[1]).read().split("\n")
for i,l in enumerate(lines):
    if re.match(r"^\+\s*#\[(tokio::)?test", l):
        for m in lines[i+1:i+4]:
            mm=re.search(r"fn ([A-Za-z_0-9]+)", m)
            if mm: print(mm.group(1)); sys.exit(0)
PY
)
  echo "=== $prop seed $k (demo test: $f)"
  conf=$(/verif/tools/confirm_seed.sh $wt $d/patch.diff $d/demo.diff "$f" 2>&1)
  echo "$conf"
  /verif/tools/mutenv.sh s-$prop --reset-repo >/dev/null
  if ! (cd /tmp/mut-s-$prop/repo && patch -p1 -s < $d/patch.diff); then echo "patch does not apply to current /repo"; fi
  res=""
  for p in $prop $others; do
    out=$(cd /verif && VERIF_HARNESS_DIR=/tmp/mut-s-$prop/harness VERIF_OUT=/tmp/mut-s-$prop/out ./check $p 2>&1 | grep -v "^KNOWN-FINDING" | cut -c1-400)
    rc=$?
    v=$(echo "$out" | grep -c "^VIOLATION")
    echo "--- ./check $p: violations=$v"; echo "$out" | head -6
    res="$res$p:violations=$v;$(echo "$out" | grep -E '^# |^VIOLATION' | head -3 | tr '\n' '|');;"
    [ "$v" -gt 0 ] && break
  done
  python3 - "$dest" "$prop" "$conf" "$res" <<'PY'
import json,sys
dest,prop,conf,res=sys.argv[1:5]
json.dump({"property":prop,"origin":"independent sub-agent given only the property text (plus a list of already-known weak spots to avoid) and a scratch worktree",
 "what_it_breaks_and_needs":"see notes.md","confirmed":conf.split("\n"),
 "check_result":res, "how":"tools/confirm_seed.sh in the scratch worktree; check run in the private mutation environment (tools/mutenv.sh)"},
 open(dest+"/meta.json","w"),indent=1)
PY
done
