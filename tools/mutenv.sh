#!/bin/sh
# Creates (or refreshes) a private mutation-testing environment:
#   /tmp/mut-<name>/repo     copy of /repo's working tree (edit THIS copy to inject a bug)
#   /tmp/mut-<name>/harness  copy of /verif/harness whose discret dependency points at that copy
# Then run a check against it with:
#   VERIF_HARNESS_DIR=/tmp/mut-<name>/harness VERIF_OUT=/tmp/mut-<name>/out ./check Cxx
# (evidence, replays and work files go under VERIF_OUT, nothing under /verif is touched).
# Remove everything with:  rm -rf /tmp/mut-<name>
set -e
name="$1"; [ -n "$name" ] || { echo "usage: mutenv.sh <name> [--reset-repo]"; exit 2; }
d=/tmp/mut-$name
mkdir -p $d/out
if [ ! -d $d/repo ] || [ "$2" = "--reset-repo" ]; then
  rsync -a --delete --exclude target --exclude .git /repo/ $d/repo/
fi
first=0; [ -d $d/harness/target ] || first=1
rsync -a --delete --exclude target /verif/harness/ $d/harness/
sed -i "s#path = \"/repo\"#path = \"$d/repo\"#" $d/harness/Cargo.toml
if [ $first = 1 ] && [ -d /verif/harness/target ]; then
  cp -r /verif/harness/target $d/harness/target    # reuse the compiled dependencies
fi
# cargo decides freshness by mtime and rsync -a keeps the (older) mtimes of restored files:
# make sure the crates are recompiled from what is on disk now
touch $d/repo/src/lib.rs
find $d/harness -path '*/src/*.rs' -not -path '*/target/*' -exec touch {} +
echo "VERIF_HARNESS_DIR=$d/harness VERIF_OUT=$d/out"
