#!/bin/bash
# wave2.sh <Cxx> [fallback props...]: confirm and evaluate the second-wave seeds of /tmp/seed2-<Cxx>/out/{1,2}
# -> /verif/seeded/<Cxx>-4, <Cxx>-5 ; then removes the scratch worktree with its build output.
prop="$1"; shift
SEED_WT=/tmp/seed2-$prop SEED_OFFSET=3 /verif/tools/run_seeds.sh $prop "$@" > /tmp/wave2-$prop.log 2>&1
rm -rf /tmp/mut-s-$prop
git -C /repo worktree remove --force /tmp/seed2-$prop 2>/dev/null
rm -rf /tmp/seed2-$prop
grep -E "^===|demo with|demo without|suite with|violations=" /tmp/wave2-$prop.log
