#!/bin/bash
# apply_fix.sh <findings-basename> "<fix: subject>"  — commits the repo patch in /repo, then applies the verif patch in /verif
set -e
n="$1"; subj="$2"
cd /repo
git apply --check /verif/findings/$n.patch 2>/dev/null && git apply /verif/findings/$n.patch || patch -p1 --no-backup-if-mismatch < /verif/findings/$n.patch
git add -A; git commit -qm "$subj"
h=$(git log -1 --format=%h)
echo "repo commit $h: $subj"
cd /verif
if [ -f findings/$n.verif.patch ]; then
  patch -p1 --no-backup-if-mismatch < findings/$n.verif.patch | tail -20
fi
echo "$h"
