#!/usr/bin/env python3
"""second wave: prints the prompt for an independent bug-seeding sub-agent for one property.
Only the property text is used, plus one line per change of the first wave (its title) so that the
new changes use other mechanisms. usage: seed_prompt2.py Cxx [worktree]"""
import json, os, sys
pid = sys.argv[1]
wt = sys.argv[2] if len(sys.argv) > 2 else "/tmp/seed2-" + pid
p = [json.loads(l) for l in open('/verif/properties.jsonl') if json.loads(l)['id'] == pid][0]
mech = "; ".join("%s (%s)" % (m['name'], m['where']) for m in p['anchors']['mechanism'])
prev = []
for k in sorted(os.listdir('/verif/seeded')):
    if k.startswith(pid + "-"):
        try:
            t = open('/verif/seeded/%s/notes.md' % k).readline().strip().lstrip('# ').strip()
            prev.append(t.split('—', 1)[-1].split(' - ', 1)[-1].strip())
        except Exception:
            pass
avoid = ""
if prev:
    avoid = ("Changes of these kinds were already produced by somebody else; do NOT repeat them or close variants, "
             "find other mechanisms and other code sites: " + " | ".join(prev) + ".\n")
print(f"""You are testing how well a verification suite can catch subtle regressions. You have a scratch git worktree of the Rust crate discretlib/discret at {wt} (work ONLY there; never touch /repo or /verif; do not read anything under /verif or /root). The crate builds offline (`cd {wt} && CARGO_NET_OFFLINE=true cargo test --offline --lib`; the dependencies are already compiled in {wt}/target, so the first build takes about a minute; 158 unit tests pass; the integration tests under tests/ need the network: ignore them). Other people are building on this machine too: use `cargo test --offline --lib -j 4`.

Here is a semantic property the crate is supposed to satisfy:

"{pid} — {p['title']}. {p['statement']}" It quantifies over: {p['quantifier']['text']}. The code that is meant to make it hold: files {', '.join(p['anchors']['files'])}; mechanisms: {mech}.

{avoid}
TASK: produce TWO distinct, realistic source changes (the kind of thing a maintainer could plausibly commit during a refactor, a clean-up or an "optimisation": an off-by-one, a reordered statement, a dropped or weakened condition, a comparison on the wrong field, a date or key taken from the wrong place, a case handled in one code path but not in its sibling, a cache that is not invalidated, an early return, an error swallowed …), each of which
  (a) still compiles and still passes the existing test suite (`cargo test --offline --lib`; check it), and
  (b) BREAKS the property above, but only in a situation that needs something specific to manifest — a particular interleaving, a crash or fault at a particular point, a multi-step sequence of operations, an unusual input, or two cooperating sites that each look fine alone — not something that ordinary use would expose at once.
Read the code carefully first and prefer sites that are NOT the most obvious one for this property (helper functions, SQL text, sibling code paths, the glue between modules), as long as the property as stated really is broken.
For each change provide a demonstration: a small Rust test (an added `#[test]`/`#[tokio::test(flavor = "multi_thread")]` in the relevant module's test section, written in the style of the neighbouring tests) that FAILS with the change applied and PASSES on the original code, and explain in two or three sentences what specific situation it needs.

Deliverables, written to {wt}/out/<k>/ for k = 1,2: `patch.diff` (the source change only, as `git diff` output relative to HEAD, applying cleanly with `git apply` at the repo root), `demo.diff` (the demonstration test as a separate diff relative to HEAD — it must apply on the ORIGINAL code too, and on top of patch.diff), `notes.md` (first line: a one-line title of the change; then what it breaks, what it needs to manifest, the exact commands you ran and their results: test suite with patch, demo with patch = fail, demo without patch = pass). Make the two changes genuinely different in mechanism. When finished, leave the worktree with no uncommitted source changes except the out/ directory (git checkout -- src tests) and reply with a short summary of the two changes.""")
