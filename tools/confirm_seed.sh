#!/bin/bash
# confirm_seed.sh <worktree> <patch.diff> <demo.diff> <test-filter>
# Confirms in a scratch worktree: (1) demo passes WITHOUT the patch, (2) demo FAILS with the patch,
# (3) the existing lib test-suite passes with the patch (demo not applied).
set -u
wt="$1"; patch="$2"; demo="$3"; filter="$4"
cd "$wt" || exit 2
export CARGO_NET_OFFLINE=true
git checkout -q -- . ; git clean -fdq -e out -e target
git apply "$demo" || { echo "demo does not apply"; exit 2; }
r1=$(cargo test --offline --lib "$filter" 2>&1 | grep -E "^test result" | head -1)
echo "demo without patch: $r1"
git checkout -q -- . ; git clean -fdq -e out -e target
git apply "$patch" || { echo "patch does not apply"; exit 2; }
r3=$(cargo test --offline --lib 2>&1 | grep -E "^test result" | head -1)
echo "suite with patch: $r3"
git apply "$demo" || { echo "demo does not apply on patch"; exit 2; }
r2=$(cargo test --offline --lib "$filter" 2>&1 | grep -E "^test result" | head -1)
echo "demo with patch: $r2"
git checkout -q -- . ; git clean -fdq -e out -e target
