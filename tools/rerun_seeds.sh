#!/bin/bash
# rerun_seeds.sh <lane-name> <seed-dir>...   re-evaluates stored seeded changes against the CURRENT checks:
# applies seeded/<id>/patch.diff to a private copy of /repo and runs the property's check (then the fallback
# checks) until one reports a VIOLATION; writes the outcome into seeded/<id>/meta.json ("final_check_result").
lane="$1"; shift
declare -A FALL=( [C05]="C04" [C12]="C02 C15 C01" [C16]="C04 C13" [C01]="C10 C12" [C13]="C09" [C14]="C13 C05" [C17]="C04" [C18]="C13 C09 C10" [C11]="C03" [C09]="C03" [C15]="C02" [C02]="C06 C12" [C03]="C02 C09 C11" [C04]="C05" [C06]="C19" [C19]="C08" [C08]="C19" )
for id in "$@"; do
  d=/verif/seeded/$id; prop=${id%%-*}
  /verif/tools/mutenv.sh $lane --reset-repo >/dev/null
  if ! (cd /tmp/mut-$lane/repo && patch -p1 -s --no-backup-if-mismatch < $d/patch.diff >/dev/null 2>&1); then
    res="patch no longer applies to /repo HEAD (the code it changes was modified by a later fix)"
    echo "$id: $res"
  else
    res="NOT DETECTED by $prop ${FALL[$prop]:-}"
    for p in $prop ${FALL[$prop]:-}; do
      out=$(cd /verif && VERIF_HARNESS_DIR=/tmp/mut-$lane/harness VERIF_OUT=/tmp/mut-$lane/out ./check $p 2>&1 | grep -v "^KNOWN-FINDING")
      if echo "$out" | grep -q "^VIOLATION"; then
        sig=$(echo "$out" | grep -E "^# " | head -2 | cut -c1-160 | tr '\n' ' ')
        nf=$(echo "$out" | grep "^VIOLATION" | grep -c "no-failing-input-found")
        tot=$(echo "$out" | grep -c "^VIOLATION")
        kind="concrete replay"; [ "$nf" = "$tot" ] && kind="no-failing-input-found only"
        res="DETECTED by ./check $p ($kind): $sig"
        break
      fi
    done
    echo "$id: $res" | cut -c1-220
  fi
  python3 - "$d/meta.json" "$res" <<'PY'
import json,sys
p,res=sys.argv[1:3]
try: m=json.load(open(p))
except Exception: m={}
m["final_check_result"]=res
json.dump(m,open(p,"w"),indent=1)
PY
done
rm -rf /tmp/mut-$lane
