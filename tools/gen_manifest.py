#!/usr/bin/env python3
"""Regenerates /verif/MANIFEST.json from the check modules (checks/Cxx.py)."""
import importlib, json, os, subprocess, sys
ROOT = os.path.dirname(os.path.dirname(os.path.abspath(__file__)))
sys.path.insert(0, ROOT)
from checks import kernel
props = [json.loads(l) for l in open(os.path.join(ROOT, "properties.jsonl"))]
PENDING = json.load(open(os.path.join(ROOT, "tools", "not_applicable.json")))
READY = json.load(open(os.path.join(ROOT, "tools", "ready.json")))   # properties whose check the lead has accepted
checks, na = [], []
for p in props:
    pid = p["id"]
    path = os.path.join(ROOT, "checks", pid + ".py")
    if not os.path.exists(path) or pid not in READY:
        na.append({"property_id": pid, "reason": PENDING.get(pid, "no check built yet for this property (see DESIGN.md §6 for the planned model and theorems)")})
        continue
    cfg = importlib.import_module("checks." + pid).CHECK
    checks.append({
        "property_id": pid,
        "quick_cmd": "./check %s --tier quick" % pid,
        "thorough_cmd": "./check %s --tier thorough" % pid,
        "evidence_file": "/verif/evidence/%s.json" % pid,
        "replay_cmd_template": "./check replay %s {path}" % pid,
        "engine": "+".join(cfg.harness_pkg) if isinstance(getattr(cfg, "harness_pkg", ""), list) else (getattr(cfg, "harness_pkg", "") or ""),
        "level_claimed": {"category": "proof", "text": cfg.level_text, "design_ref": cfg.design_ref},
        "level_note": cfg.level_note,
        "technique": cfg.technique + kernel.technique(pid),
    })
hooks_commits = subprocess.run(["git", "-C", "/repo", "log", "--format=%h %s", "--grep=^verif hook"],
                               stdout=subprocess.PIPE, text=True).stdout.strip().split("\n")
m = {
    "version": 1,
    "setup_cmd": "./setup.sh",
    "hooks": {
        "guard": "cargo feature `verif` of the discret crate (default off)",
        "enable": "the harness workspace (/verif/harness) depends on discret by path with features=[\"verif\"]; `cargo build --offline` there rebuilds /repo's working tree with the hooks on",
        "baseline_off_cmd": "cd /repo && cargo test --workspace --no-fail-fast --offline",
        "source_commits": [c for c in hooks_commits if c],
        "add_only": True,
    },
    "engines": json.load(open(os.path.join(ROOT, "tools", "engines.json"))),
    "checks": checks,
    "notes": "Technique: machine-checked proof in Lean 4 about hand-written executable models (lean/DiscretModel/Model), tied to /repo on every run by a correspondence check (Rust harness drives the real code in-process, the compiled Lean model runs the same op file, outputs are diffed) and, where a property is about a syntactic enumeration, by translators regenerating Lean tables from the source (T1-T6); since the second build session the decision kernels themselves (room.rs decision functions, the ingestion validators, the last-writer-wins filter, the import rules of room definitions, the decision of validate_deletion, the close-before-drain order of a connection) are RE-TRANSLATED from the Rust source on every run (T7-T12, translators/rustmini.py) and Lean equalities between the regenerated definitions and the hand-written models are proof obligations of the checks (checks/kernel.py). See DESIGN.md, in particular section 9.3.",
    "not_applicable": na,
}
json.dump(m, open(os.path.join(ROOT, "MANIFEST.json"), "w"), indent=1)
print("checks:", [c["property_id"] for c in checks], "not claimed:", [n["property_id"] for n in na])
