#!/usr/bin/env python3
"""third wave: as seed_prompt2.py but ONE change per agent, a time budget, and worktree /tmp/seed3-<Cxx>.
usage: seed_prompt3.py Cxx"""
import subprocess, sys
pid = sys.argv[1]
wt = "/tmp/seed3-" + pid
t = subprocess.run([sys.executable, '/verif/tools/seed_prompt2.py', pid, wt], capture_output=True, text=True).stdout
t = t.replace("TASK: produce TWO distinct, realistic source changes", "TASK: produce ONE realistic source change")
t = t.replace(", each of which\n", ", which\n")
t = t.replace("For each change provide a demonstration", "Provide a demonstration")
t = t.replace("for k = 1,2:", "for k = 1:")
t = t.replace(" Make the two changes genuinely different in mechanism.", "")
t = t.replace("short summary of the two changes", "short summary of the change")
t += "\nYou have about 25 minutes of wall-clock time: pick a site quickly, keep the demonstration small, and deliver out/1/ even if you would have liked to polish it."
print(t)
