#!/bin/bash
# translator_selftest.sh <seed-dir>...: applies each seeded patch to a scratch copy of /repo/src, runs the source
# translators T7/T8/T9/T11/T12 into a scratch copy of the Lean project and reports which regenerated obligations stop checking.
# Needs no cargo build: this isolates the "model regenerated from source" tie from the correspondence run.
set -u
S=/tmp/tselftest-$$; mkdir -p $S
rsync -a --exclude .git --exclude target /repo/ $S/repo0/
rsync -a /verif/lean/ $S/lean/
for sd in "$@"; do sd=$(readlink -f $sd)
  rm -rf $S/repo; cp -r $S/repo0 $S/repo
  (cd $S/repo && patch -p1 -s --no-backup-if-mismatch < $sd/patch.diff) || { echo "$(basename $sd): patch does not apply"; continue; }
  res=""
  for t in t7_room_kernel t8_ingest_kernel t9_lww t10_conn_close t11_roomnode_kernel t12_deletion_kernel; do
    out=$(cd /verif/translators && VERIF_GEN_DIR=$S/lean/DiscretModel/Gen python3 $t.py $S/repo 2>&1) || res="$res $t:TRANSLATOR-FAILED($(echo "$out" | tail -1 | cut -c1-100))"
  done
  b=$(cd $S/lean && lake build DiscretModel.Lemmas.RoomKernelEq DiscretModel.Lemmas.IngestKernelEq DiscretModel.Lemmas.LwwEq DiscretModel.Lemmas.RoomNodeKernelEq DiscretModel.Lemmas.DeletionKernelEq DiscretModel.Lemmas.ConnCloseEq 2>&1)
  if echo "$b" | grep -q "error"; then res="$res BROKEN: $(echo "$b" | grep -E "^✖|error:" | head -3 | cut -c1-160 | tr '\n' ' ')"; else res="$res all regenerated obligations still check"; fi
  echo "$(basename $sd):$res"
done
rm -rf $S
