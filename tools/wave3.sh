#!/bin/bash
# wave3.sh <Cxx> [fallback props...]: confirm and evaluate the third-wave seed of /tmp/seed3-<Cxx>/out/1
# -> /verif/seeded/<Cxx>-6 ; then removes the scratch worktree with its build output.
prop="$1"; shift
SEED_WT=/tmp/seed3-$prop SEED_OFFSET=5 /verif/tools/run_seeds.sh $prop "$@" > /tmp/wave3-$prop.log 2>&1
rm -rf /tmp/mut-s-$prop
git -C /repo worktree remove --force /tmp/seed3-$prop 2>/dev/null
rm -rf /tmp/seed3-$prop
grep -E "^===|demo with|demo without|suite with|violations=|^VIOLATION" /tmp/wave3-$prop.log
