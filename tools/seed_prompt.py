#!/usr/bin/env python3
"""prints the prompt for an independent bug-seeding sub-agent for one property (only the property text is used)"""
import json, sys
pid = sys.argv[1]
extra = sys.argv[2] if len(sys.argv) > 2 else ""
p = [json.loads(l) for l in open('/verif/properties.jsonl') if json.loads(l)['id'] == pid][0]
mech = "; ".join("%s (%s)" % (m['name'], m['where']) for m in p['anchors']['mechanism'])
print(f"""You are testing how well a verification suite can catch subtle regressions. You have a scratch git worktree of the Rust crate discretlib/discret at /tmp/seed-{pid} (work ONLY there; never touch /repo or /verif; do not read anything under /verif). The crate builds offline (`cd /tmp/seed-{pid} && CARGO_NET_OFFLINE=true cargo test --offline --lib` — the first build takes ~5 minutes; 158 unit tests pass; the integration tests under tests/ need the network and fail offline: ignore them).

Here is a semantic property the crate is supposed to satisfy:

"{pid} — {p['title']}. {p['statement']}" It quantifies over: {p['quantifier']['text']}. The code that is meant to make it hold: files {', '.join(p['anchors']['files'])}; mechanisms: {mech}.
{extra}
TASK: produce up to THREE distinct, realistic source changes (the kind of thing a maintainer could plausibly commit during a refactor, a clean-up or an "optimisation": an off-by-one, a reordered statement, a dropped or weakened condition, a comparison on the wrong field, a date taken from the wrong place, a case handled in one code path but not its sibling …), each of which
  (a) still compiles and still passes the existing test suite (`cargo test --offline --lib`; check it), and
  (b) BREAKS the property above, but only in a situation that needs something specific to manifest — a particular interleaving, a crash or fault at a particular point, a multi-step sequence of operations, an unusual input, or two cooperating sites that each look fine alone — not something that ordinary use would expose at once.
For each change provide a demonstration: a small Rust test (an added `#[test]`/`#[tokio::test]` in the relevant module's test section, written in the style of the neighbouring tests) that FAILS with the change applied and PASSES on the original code, and explain in two or three sentences what specific situation it needs.

Deliverables, written to /tmp/seed-{pid}/out/<k>/ for k = 1,2,3: `patch.diff` (the source change only, as `git diff` output relative to HEAD, applying cleanly with `git apply` at the repo root), `demo.diff` (the demonstration test as a separate diff relative to HEAD — it must apply on the ORIGINAL code too), `notes.md` (what it breaks, what it needs to manifest, the exact commands you ran and their results: test suite with patch, demo with patch = fail, demo without patch = pass). Make the three changes genuinely different in mechanism. When finished, leave the worktree with no uncommitted source changes except the out/ directory (git checkout -- src tests) and reply with a short summary of the three changes.""")
