#!/bin/sh
# Builds the whole framework offline from files on disk: the Lean development (models, lemmas,
# property theorems, model drivers) and the Rust correspondence harness against /repo.
# Every check rebuilds what it needs itself; a target that fails here is reported and does not stop
# the others (the check of the property concerned will then report it).
cd "$(dirname "$0")"
export CARGO_NET_OFFLINE=true
[ -f harness/Cargo.lock ] || cp /repo/Cargo.lock harness/Cargo.lock
rc=0
for t in translators/*.py; do
  [ -f "$t" ] && { python3 "$t" >/dev/null 2>&1 || echo "setup: translator $t failed (its check will report it)"; }
done
(cd lean && lake build DiscretModel) || { echo "setup: lake build DiscretModel failed"; rc=1; }
for exe in $(sed -n 's/^name = "\(dmodel_[a-z_]*\)"/\1/p' lean/lakefile.toml); do
  (cd lean && lake build "$exe") || { echo "setup: lake build $exe failed"; rc=1; }
done
(cd harness && cargo build --offline --workspace) || {
  echo "setup: workspace build failed, building packages one by one"
  for p in $(sed -n 's/^name = "\(dv[a-z-]*\)"/\1/p' harness/*/Cargo.toml); do
    (cd harness && cargo build --offline -p "$p") || { echo "setup: cargo build -p $p failed"; rc=1; }
  done
}
echo "setup done (rc=$rc)"
exit 0
