#!/bin/sh
# Builds the whole framework offline from files on disk: the Lean development (models, lemmas,
# property theorems, model drivers) and the Rust correspondence harness against /repo.
set -e
cd "$(dirname "$0")"
export CARGO_NET_OFFLINE=true
[ -f harness/Cargo.lock ] || cp /repo/Cargo.lock harness/Cargo.lock
(cd lean && lake build)
(cd harness && cargo build --offline --workspace)
echo "setup ok"
